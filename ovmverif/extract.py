"""Extraction driver: runs ovm-extract over the library units (list parsed from
/repo/src/CMakeLists.txt on every run), the instantiation units in /verif/tu and
the canary fixtures, merges the per-unit facts by function id and caches the
merged fact base keyed by a hash of every input file."""
import concurrent.futures as cf
import fcntl
import hashlib
import json
import os
import pickle
import re
import subprocess
import sys
import time

VERIF = os.path.dirname(os.path.dirname(os.path.abspath(__file__)))
REPO = os.environ.get("OVM_REPO", "/repo")
SRC = os.path.join(REPO, "src")
BUILD = os.path.join(VERIF, "build")
GEN = os.path.join(BUILD, "gen")
EXTRACTOR = os.path.join(BUILD, "ovm-extract")
RESOURCE_DIR = "/usr/lib/llvm-14/lib/clang/14.0.6"
ROOTS = [os.path.join(SRC, "OpenVolumeMesh"), os.path.join(VERIF, "tu"), os.path.join(VERIF, "fixtures")]
MIN_UNITS = 28


class AnalysisBroken(Exception):
    """exit code 2: an anchor vanished / the tool chain failed"""


def library_units():
    txt = open(os.path.join(SRC, "CMakeLists.txt")).read()
    m = re.search(r"SET\s*\(\s*SOURCE_FILES(.*?)\)", txt, re.S | re.I)
    if not m:
        raise AnalysisBroken("SOURCE_FILES list not found in src/CMakeLists.txt")
    units = [os.path.join(SRC, u) for u in m.group(1).split() if u.endswith(".cc")]
    if len(units) < MIN_UNITS:
        raise AnalysisBroken("only %d library units found (floor %d)" % (len(units), MIN_UNITS))
    for u in units:
        if not os.path.exists(u):
            raise AnalysisBroken("unit listed in CMakeLists.txt does not exist: " + u)
    return units


def gen_config():
    d = os.path.join(GEN, "OpenVolumeMesh", "Config")
    os.makedirs(d, exist_ok=True)
    top = open(os.path.join(REPO, "CMakeLists.txt")).read()
    m = re.search(r"VERSION\s+(\d+)\.(\d+)\.(\d+)", top.split("project", 1)[-1])
    ver = m.groups() if m else ("0", "0", "0")
    cfg_in = os.path.join(SRC, "OpenVolumeMesh", "Config")
    files = {}
    t = open(os.path.join(cfg_in, "Version.hh.in")).read()
    t = t.replace("@OpenVolumeMesh_VERSION@", ".".join(ver)).replace("@OpenVolumeMesh_VERSION_MAJOR@", ver[0])
    t = t.replace("@OpenVolumeMesh_VERSION_MINOR@", ver[1]).replace("@OpenVolumeMesh_VERSION_PATCH@", ver[2])
    files["Version.hh"] = t
    t = open(os.path.join(cfg_in, "DeprecationConfig.hh.in")).read()
    t = re.sub(r"#cmakedefine01\s+(\w+)", r"#define \1 0", t)
    files["DeprecationConfig.hh"] = t
    files["Export.hh"] = (
        "#ifndef OVM_EXPORT_H\n#define OVM_EXPORT_H\n#define OVM_EXPORT\n#define OVM_NO_EXPORT\n"
        "#define CMAKE_OVM_DEPRECATED __attribute__ ((__deprecated__))\n"
        "#define CMAKE_OVM_DEPRECATED_EXPORT OVM_EXPORT CMAKE_OVM_DEPRECATED\n"
        "#define CMAKE_OVM_DEPRECATED_NO_EXPORT OVM_NO_EXPORT CMAKE_OVM_DEPRECATED\n#endif\n"
    )
    for n, c in files.items():
        p = os.path.join(d, n)
        if not os.path.exists(p) or open(p).read() != c:
            open(p, "w").write(c)


def flags(ndebug=True):
    f = ["-std=gnu++17", "-I" + SRC, "-I" + GEN, "-resource-dir", RESOURCE_DIR, "-w"]
    f.append("-DNDEBUG" if ndebug else "-UNDEBUG")
    if os.environ.get("OVM_VERIF_HOOKS"):
        f.append("-DOVM_VERIF")
    return f


def _files_for_hash():
    out = []
    for root in (SRC, os.path.join(VERIF, "tu"), os.path.join(VERIF, "fixtures")):
        for dp, dn, fn in os.walk(root):
            dn.sort()
            for f in sorted(fn):
                if f.endswith((".cc", ".hh", ".h", ".hpp", ".in", ".txt")):
                    out.append(os.path.join(dp, f))
    out.append(os.path.join(REPO, "CMakeLists.txt"))
    out.append(EXTRACTOR)
    out.append(os.path.abspath(__file__))
    return out


def input_hash(extra=""):
    h = hashlib.sha256()
    for p in _files_for_hash():
        h.update(p.encode())
        try:
            h.update(open(p, "rb").read())
        except OSError:
            h.update(b"<missing>")
    h.update(extra.encode())
    return h.hexdigest()[:24]


def _run_one(job):
    src, out, ndebug = job
    cmd = [EXTRACTOR, "--out=" + out] + ["--root=" + r for r in ROOTS] + [src, "--"] + flags(ndebug)
    t0 = time.time()
    p = subprocess.run(cmd, stdout=subprocess.PIPE, stderr=subprocess.PIPE, text=True)
    ok = p.returncode == 0 and os.path.exists(out)
    return src, out, ok, p.stderr[-2000:], time.time() - t0


def _merge(outs):
    fb = {"functions": {}, "records": {}, "enums": {}, "vars": {}, "units": []}
    for src, out in outs:
        d = json.load(open(out))
        fb["units"].append(src)
        for f in d["functions"]:
            cur = fb["functions"].get(f["id"])
            if cur is None:
                f["unit"] = src
                fb["functions"][f["id"]] = f
        for r in d["records"]:
            fb["records"].setdefault(r["name"], r)
        for e in d["enums"]:
            fb["enums"].setdefault(e["name"], e)
        for v in d["vars"]:
            cur = fb["vars"].get(v["n"])
            if cur is None or ("init" not in cur and "init" in v):
                fb["vars"][v["n"]] = v  # prefer the defining declaration (extern declarations carry no initialiser)
    return fb


def extra_units(tier):
    """thorough tier: unit tests, examples and the converter add template instantiations"""
    if tier != "thorough":
        return []
    out = []
    for sub in ("src/Unittests", "src/FileConverter", "examples"):
        d = os.path.join(REPO, sub)
        for dp, dn, fn in os.walk(d):
            for f in sorted(fn):
                if f.endswith((".cc", ".cpp")):
                    out.append(os.path.join(dp, f))
    return out


def ensure(tier="quick", log=sys.stderr):
    """returns (factbase NDEBUG, factbase with asserts, info dict)"""
    if not os.path.exists(EXTRACTOR):
        raise AnalysisBroken("extractor binary missing: run MANIFEST.setup_cmd (./setup.sh)")
    gen_config()
    units = library_units()
    tus = sorted(os.path.join(VERIF, "tu", f) for f in os.listdir(os.path.join(VERIF, "tu")) if f.endswith(".cc"))
    fixtures = sorted(os.path.join(VERIF, "fixtures", f) for f in os.listdir(os.path.join(VERIF, "fixtures")) if f.endswith(".cc"))
    key = input_hash("v4")
    cdir = os.path.join(BUILD, "cache", key)
    os.makedirs(cdir, exist_ok=True)
    lock = open(os.path.join(BUILD, "cache", "lock"), "w")
    fcntl.flock(lock, fcntl.LOCK_EX)
    try:
        pk = os.path.join(cdir, "facts.pickle")
        info_p = os.path.join(cdir, "info.json")
        if os.path.exists(pk) and os.path.exists(info_p):
            t0 = time.time()
            with open(pk, "rb") as fh:
                fb, fbd = pickle.load(fh)
            info = json.load(open(info_p))
            info["cache"] = "hit"
            info["load_s"] = round(time.time() - t0, 2)
            return fb, fbd, info
        t0 = time.time()
        jobs = []
        for i, u in enumerate(units + tus + fixtures):
            base = "%03d_%s" % (i, os.path.basename(u))
            jobs.append((u, os.path.join(cdir, base + ".ndebug.json"), True))
            jobs.append((u, os.path.join(cdir, base + ".assert.json"), False))
        failed = []
        outs_n, outs_d = [], []
        times = {}
        with cf.ThreadPoolExecutor(max_workers=min(16, os.cpu_count() or 4)) as ex:
            for (src, out, ok, err, dt), job in zip(ex.map(_run_one, jobs), jobs):
                times[os.path.basename(out)] = round(dt, 1)
                if not ok:
                    failed.append((src, err))
                elif job[2]:
                    outs_n.append((src, out))
                else:
                    outs_d.append((src, out))
        if failed:
            msg = "\n".join("%s:\n%s" % f for f in failed[:5])
            raise AnalysisBroken("extractor failed on %d unit(s) (does the tree compile?):\n%s" % (len(failed), msg))
        fb = _merge(outs_n)
        fbd = _merge(outs_d)
        info = {
            "key": key,
            "library_units": len(units),
            "instantiation_units": len(tus),
            "fixture_units": len(fixtures),
            "functions": len(fb["functions"]),
            "functions_assert_parse": len(fbd["functions"]),
            "records": len(fb["records"]),
            "extract_wall_s": round(time.time() - t0, 1),
            "cache": "miss",
        }
        with open(pk, "wb") as fh:
            pickle.dump((fb, fbd), fh, protocol=pickle.HIGHEST_PROTOCOL)
        json.dump(info, open(info_p, "w"))
        for _, out in outs_n + outs_d:
            os.remove(out)
        # drop older caches (disk hygiene)
        croot = os.path.join(BUILD, "cache")
        dirs = sorted((os.path.getmtime(os.path.join(croot, d)), d) for d in os.listdir(croot) if os.path.isdir(os.path.join(croot, d)) and d != key)
        for _, d in dirs[:-2]:  # keep the two most recent other caches (scratch variants alternate with /repo)
            subprocess.run(["rm", "-rf", os.path.join(croot, d)])
        return fb, fbd, info
    finally:
        fcntl.flock(lock, fcntl.LOCK_UN)
        lock.close()


if __name__ == "__main__":
    fb, fbd, info = ensure()
    print(json.dumps(info, indent=1))
