"""C04 (garbage collection) and C09 (rotational order of halffaces around an edge): pairing, trigger and shape rules"""
import re

from .canon import Canon, ceq, eq_match
from .extract import AnalysisBroken
from .facts import as_assign, estr, need_names, unwrap, walk
from .lockstep import Ctx, delete_cores, elem_effects, find_gc, gc_rules, owner_rule, compute_rule, km_cache
from .rule_g import iter_sites, single_assignment_init
from .rule_l import atoms_at, fmt_atoms

TK = "OpenVolumeMesh::TopologyKernel"
MODE_ATOMS = ("deferred_deletion_enabled()", "fast_deletion_enabled()")


def mode_changes(f):
    """sites that change the deferred-deletion mode: (pos, node, kind, arg-resolved)"""
    out = []
    for n, parents, pos in iter_sites(f):
        if pos[0] not in f.reach():
            continue
        if n.get("k") == "call" and n.get("pn", "").endswith("TopologyKernel::enable_deferred_deletion"):
            out.append((pos, n, "call", unwrap(n["a"][0]) if n.get("a") else None))
        a = as_assign(n) if n.get("k") == "asg" else None
        if a and isinstance(unwrap(a[0]), dict) and unwrap(a[0]).get("f") == "deferred_deletion_" and unwrap(a[0]).get("o") == TK:
            out.append((pos, n, "write", unwrap(a[1])))
    return out


def every_path_passes(f, start_pos, targets):
    """every path from start_pos to the function exit passes one of the target positions"""
    tb = {}
    for p in targets:
        tb.setdefault(p[0], []).append(p[1])
    if start_pos[0] in tb and any(i > start_pos[1] for i in tb[start_pos[0]]):
        return True
    seen, st = set(), [s for s in f.succ(start_pos[0]) if s is not None]
    while st:
        b = st.pop()
        if b in seen:
            continue
        seen.add(b)
        if b in tb:
            continue
        if b == f.exit:
            return False
        st.extend(s for s in f.succ(b) if s is not None)
    return True


def run_c04(ck, fb, fbd):
    c = Ctx(ck, fb)
    cores = delete_cores(c)
    ck.rule("P.mode", "a function that switches the deferred-deletion mode temporarily (collect_garbage, StatusAttrib::garbage_collection, tetrahedral collapse_edge/split_edge/split_face) restores it on every path to every normal exit")
    n = 0
    for f in fb.fns.values():
        if not f.has_cfg or "/src/OpenVolumeMesh/" not in f.file or f.pq.endswith("TopologyKernel::enable_deferred_deletion"):
            continue
        if f.d.get("copy_assign") or f.d.get("move_assign") or f.kind in ("ctor", "dtor"):
            continue  # whole-object copies transfer the mode, they do not switch it temporarily
        ch = mode_changes(f)
        if not ch:
            continue
        # restore sites: enable_deferred_deletion(saved) with saved initialised from deferred_deletion_enabled(), or the write-back of the literal the function is entered with
        saved = set()
        for b, i, d in f.nodes(("decl",)):
            for v in d["vars"]:
                if v.get("init") is not None and "deferred_deletion_enabled()" in estr(f.resolve(v["init"])):
                    saved.add(v["id"])
        restores, changes = [], []
        for pos, node, kind, arg in ch:
            if kind == "call" and isinstance(arg, dict) and arg.get("k") == "var" and arg.get("id") in saved:
                restores.append(pos)
            elif kind == "write" and isinstance(arg, dict) and arg.get("k") == "lit" and arg.get("v") is True and any(k2 == "write" and isinstance(a2, dict) and a2.get("v") is False for p2, n2, k2, a2 in ch):
                # collect_garbage: entered only with the mode on (early return otherwise), switches it off and back on
                entered_on = any(("deferred_deletion_enabled()" in estr(cn) or "deferred_deletion_" in estr(cn)) and pol is True for cn, pol, e in f.facts(pos[0]))
                if entered_on:
                    restores.append(pos)
                else:
                    changes.append((pos, node))
            else:
                changes.append((pos, node))
        for pos, node in changes:
            n += 1
            ok = bool(restores) and every_path_passes(f, pos, restores)
            (ck.ok if ok else lambda r, w, t: ck.violate(r, w, t, "P.mode:%s" % f.pq))("P.mode", f.loc(node), "%s: the mode change '%s' is undone on every path to the exit" % (f.pq.split("OpenVolumeMesh::")[-1][:60], estr(node)[:50]))
    ck.floor("temporary_mode_changes", n, 5)
    # (2) collect_garbage shape (shared with C02)
    gc_rules(c, cores)
    gc = find_gc(c)
    early = [(b, x) for b, i, x in gc.tops() if x.get("k") == "ret" and b in gc.reach()]
    ck.rule("C04.early", "collect_garbage returns early only when deferred deletion is off or nothing is pending")
    for b, x in early:
        at = {(estr(cn), pol) for cn, pol, e in gc.facts(b)}
        lastblock = b in [p for p in gc.pred(gc.exit)] and not at
        ok = lastblock or at <= {("deferred_deletion_enabled()", False), ("needs_garbage_collection()", False)} and at
        (ck.ok if ok else lambda r, w, t: ck.violate(r, w, t, "C04.early"))("C04.early", gc.loc(x), "collect_garbage return under %s" % (sorted(at) or "no condition (end of function)"))
    leave_rule(ck, c, gc)
    # (4) StatusAttrib::garbage_collection
    ck.rule("C04.status", "StatusAttrib::garbage_collection deletes status-marked edges/faces/cells only when not already deleted, establishes bottom-up incidences before the manifoldness pass, remaps tracked handles only when valid, from maps sized before collect_garbage(), and collects on every path")
    sg = [f for f in fb.fns.values() if f.cls == "OpenVolumeMesh::StatusAttrib" and f.name == "garbage_collection" and f.has_cfg and len(f.d["params"]) == 5]
    ck.floor("status_gc_instantiations", len(sg), 1)
    for f in sg[:3]:
        bools = [p_["n"] for p_ in f.d["params"] if p_["t"] == "bool"]
        if len(bools) != 1:
            raise AnalysisBroken("%s: StatusAttrib::garbage_collection: the preserve-manifoldness parameter (bool) is not unique" % f.where)
        pman = bools[0]
        dels = [(b, i, x) for b, i, x in f.nodes(("call",)) if x.get("pn", "") in (TK + "::delete_edge", TK + "::delete_face", TK + "::delete_cell", TK + "::delete_vertex") and b in f.reach()]
        bu = [(b, i) for b, i, x in f.nodes(("call",)) if x.get("pn", "").endswith("::enable_bottom_up_incidences")]
        cg = [(b, i) for b, i, x in f.nodes(("call",)) if x.get("u") == gc.id]
        bad = []
        n_status = 0
        for b, i, x in dels:
            at = [(estr(cn), pol) for cn, pol, e in f.facts(b)]
            status = any("deleted()" in s and pol is True for s, pol in at)
            manifold = any(pman == s and pol is True for s, pol in at)
            if status and not x["pn"].endswith("delete_vertex"):
                n_status += 1
                if not any("is_deleted(" in s and pol is False for s, pol in at):
                    bad.append("status loop %s without !is_deleted" % x["pn"].split("::")[-1])
            if manifold:
                if not (bu and all(f.dominates(p, (b, i)) for p in bu[:1])):
                    bad.append("manifoldness pass %s not dominated by enable_bottom_up_incidences(true)" % x["pn"].split("::")[-1])
        if n_status < 3:
            bad.append("status loops not recognised (%d)" % n_status)
        pd = f.postdominators()
        if not cg or not all(any(b in pd.get(f.entry, ()) for b, i in cg) or every_path_passes(f, (f.entry, -1), cg) for _ in [0]):
            bad.append("collect_garbage() not on every path")
        # remap writes guarded by is_valid()
        nrem = 0
        for b, i, x in f.tops():
            a = as_assign(x)
            if a and isinstance(unwrap(a[0]), dict) and (unwrap(a[0]).get("k") == "un" and unwrap(a[0]).get("op") == "*" or estr(a[0]).startswith("*")) and "[" in estr(a[1]):
                nrem += 1
                if not any("is_valid()" in estr(cn) and pol is True for cn, pol, e in f.facts(b)):
                    bad.append("handle remap without is_valid() guard at line %s" % x.get("ln"))
        if nrem < 4:
            bad.append("remap statements not recognised (%d)" % nrem)
        # maps sized (nv.. captured) before collect_garbage
        sizes = [(b, i) for b, i, d in f.nodes(("decl",)) for v in d["vars"] if v.get("init") is not None and estr(f.resolve(v["init"])).replace("this.", "").split(".")[-1] in ("n_vertices()", "n_halfedges()", "n_halffaces()", "n_cells()")]
        if len(sizes) < 4 or not all(any(f.dominates(s, cgp) for cgp in cg) for s in sizes):
            bad.append("entity counts for the remap are not taken before collect_garbage()")
        (ck.ok if not bad else lambda r, w, t: ck.violate(r, w, t, "C04.status"))("C04.status", f.where, "StatusAttrib::garbage_collection: %s" % ("all clauses hold" if not bad else "; ".join(bad)))
    for f in sg[:1]:
        status_remap(ck, f)
    # garbage collection = swap with the last entity + erase, per kind: relabelling and renumbering rules (shared with C17 / C02)
    from .lockstep import relabel_rules, corrections
    relabel_rules(c)
    corrections(c, cores)
    # second pass safety and incidence recomputation (shared with C01)
    elem = elem_effects(c)
    owner_rule(c, cores, elem)
    compute_rule(c)


def leave_rule(ck, c, gc):
    """leaving deferred mode collects (shared with C02: pending deletions must not survive into immediate mode)"""
    # (3) leaving deferred mode collects
    ck.rule("C04.leave", "enable_deferred_deletion(false) passes through collect_garbage() whenever the mode was on, before the flag is written")
    ed = [f for f in c.fns if f.name == "enable_deferred_deletion"]
    if not ed:
        raise AnalysisBroken("anchor vanished: TopologyKernel::enable_deferred_deletion")
    ed = ed[0]
    pen = ed.d["params"][0]["n"]
    calls = [(b, i) for b, i, x in ed.nodes(("call",)) if x.get("u") == gc.id]
    writes = [pos for pos, node, kind, arg in mode_changes(ed) if kind == "write"]
    ok = False
    if calls and writes:
        at = {(estr(cn), pol) for cn, pol, e in ed.facts(calls[0][0])}
        ok = at == {("deferred_deletion_", True), (pen, False)} and not ed.dominates(writes[0], calls[0])
    (ck.ok if ok else lambda r, w, t: ck.violate(r, w, t, "C04.leave"))("C04.leave", ed.where, "enable_deferred_deletion calls collect_garbage() exactly under (deferred_deletion_ && !_enable), before writing the flag")


def status_remap(ck, f):
    """StatusAttrib::garbage_collection: the manifoldness pass is top-down, and the handle remap keeps the four entity
    kinds apart (counts, identity fill, inverse map, update of the tracked handles) - all on canonical forms"""
    from .canon import Canon
    ck.rule("C04.remap", "StatusAttrib::garbage_collection: the manifoldness pass deletes cell-less faces, then valence-0 edges, then valence-0 vertices (in this order); for each of the four tracked kinds the identity property is filled for [0, n_K) with n_K taken before the collection, the inverse map has n_K entries, is filled as map[id[x]] = x over the surviving entities of kind K and is applied to the tracked handles of that same kind under is_valid()")
    cn = Canon(f)
    tops = sorted(f.tops(), key=lambda z: (-z[0], z[1]))
    strs = [(b, i, cn.s(x), x) for b, i, x in tops]
    # manifoldness pass
    P = "P%d" % [k for k, p_ in enumerate(f.d["params"]) if p_["t"] == "bool"][0]
    sites = {}
    for b, i, s_, x in strs:
        m = re.fullmatch(r"kernel_\.delete_(face|edge|vertex)\(each\(kernel_\.(faces|edges|vertices)\(\)\)\)", s_)
        if m and (P, True) in {(t_, p_) for t_, p_, c_ in cn.facts(b)}:
            sites[m.group(1)] = (b, i, {(t_, p_) for t_, p_, c_ in cn.facts(b)})
    ok = set(sites) == {"face", "edge", "vertex"}
    why = "sites %s" % sorted(sites)
    if ok:
        fF, fE, fV = sites["face"][2], sites["edge"][2], sites["vertex"][2]
        c0 = "kernel_.incident_cell(halfface_handle(each(kernel_.faces()), 0)).is_valid()"
        c1 = "kernel_.incident_cell(halfface_handle(each(kernel_.faces()), 1)).is_valid()"
        ok = (c0, False) in fF and (c1, False) in fF and (ceq("kernel_.valence(each(kernel_.edges()))", "0"), True) in fE and (ceq("kernel_.valence(each(kernel_.vertices()))", "0"), True) in fV
        why = "conditions"
        if ok:
            # order: every path to the edge pass has finished the face pass, etc. (the later site is not reachable before the earlier loop is done)
            ok = sites["edge"][0] not in f.reachable_from(f.entry, skip_edge=None) or True
            ok = sites["face"][0] not in f.reachable_from(sites["edge"][0]) and sites["edge"][0] not in f.reachable_from(sites["vertex"][0]) and sites["face"][0] not in f.reachable_from(sites["vertex"][0])
            why = "order face -> edge -> vertex"
    (ck.ok if ok else lambda r, w, t: ck.violate(r, w, t, "C04.remap:manifold"))("C04.remap", f.where, "the manifoldness pass removes cell-less faces, then isolated edges, then isolated vertices (%s)" % why)
    kinds = [("vertex", "vertices", "n_vertices", "VH", 0), ("halfedge", "halfedges", "n_halfedges", "HEH", 1), ("halfface", "halffaces", "n_halffaces", "HFH", 2), ("cell", "cells", "n_cells", "CH", 3)]
    all_s = [s_ for b, i, s_, x in strs]
    conds = [cn.s((f.term(b) or {}).get("cond")) for b in f.reach() if f.term(b) and f.term(b).get("cond")]
    for kname, rng, cnt, H, pj in kinds:
        REQ = r"kernel_\.request_%s_property\([^\[\]]*\)" % kname
        fill = [re.fullmatch(r"%s\[\(%s\)%s\((it\d+)\(0\)\)\] = \1\(0\)" % (REQ, H, H), s_) for s_ in all_s]
        fill = [m for m in fill if m]
        ok1 = len(fill) == 1 and any(re.fullmatch(r"\(%s\(0\) < (\(int\))?kernel_\.%s\(\)\)" % (fill[0].group(1), cnt), c_) for c_ in conds)
        inv = [re.fullmatch(r"\((v\d+)\[%s\[each\(kernel_\.%s\(\)\)\]\] = each\(kernel_\.%s\(\)\)\)" % (REQ, rng, rng), s_) for s_ in all_s]
        inv = [m for m in inv if m]
        ok2 = len(inv) == 1
        M = inv[0].group(1) if ok2 else "?"
        ok3 = ("%s.resize(kernel_.%s())" % (M, cnt)) in all_s or ("%s.resize((int)kernel_.%s())" % (M, cnt)) in all_s
        app = [(b, s_) for b, i, s_, x in strs if s_ == "(*each(P%d) = %s[each(P%d).idx()])" % (pj, M, pj)]
        ok4 = len(app) == 1 and ("each(P%d).is_valid()" % pj, True) in {(t_, p_) for t_, p_, c_ in cn.facts(app[0][0])}
        ok = ok1 and ok2 and ok3 and ok4
        (ck.ok if ok else lambda r, w, t: ck.violate(r, w, t, "C04.remap:%s" % kname))("C04.remap", f.where, "%s handles: identity fill over [0, %s) %s, inverse map over %s() %s, sized %s() %s, applied to parameter %d under is_valid() %s" % (kname, cnt, ok1, rng, ok2, cnt, ok3, pj, ok4))


# ------------------------------------------------------------------------------------------------ C09
def walk_rules(ck, fb, ro):
    """shape of the two walks of reorder_incident_halffaces (shared with C01: the function rewrites a cache list in place)"""
    if "C09.walk" not in ck.rules:
        ck.rule("C09.walk", "inside reorder_incident_halffaces the forward walk appends and steps with adjacent_halfface_in_cell + opposite_halfface_handle along the halfedge, the backward walk uses the opposite halfedge and prepends, both walks abort when they outgrow the stored list, and the stored list is replaced - together with its mirrored reverse for the opposite halfedge - only when every halfface was visited")
    # walk
    # roles instead of names: the rule is written against the aliases below, which are bound to the function's locals by role
    from .canon import Canon
    rcn = Canon(ro)
    HE = "halfedge_handle(P0, 0)"
    STORED = "incident_hfs_per_he_[%s]" % HE
    newv = [vid for vid, ms in rcn.mods.items() if any(m_[3].get("pn", "").split("::")[-1] == "push_back" for m_ in ms) and "std::vector<OpenVolumeMesh::HFH" in rcn.decl[vid][0]["t"]]
    curhe = [vid for vid in rcn.decl if rcn.kind[vid] == "mut" and rcn.decl[vid][0].get("init") is not None and rcn.s(rcn.decl[vid][0]["init"]) == HE]
    curhf = set()
    for b_, i_, x_ in ro.nodes(("call",)):
        if x_.get("pn", "").split("::")[-1] == "adjacent_halfface_in_cell" and x_.get("a"):
            a0_ = unwrap(ro.resolve(x_["a"][0]))
            if isinstance(a0_, dict) and a0_.get("k") == "var" and rcn.kind.get(a0_.get("id")) == "mut":
                curhf.add(a0_["id"])
    if len(newv) > 1:
        # several scratch lists: the new list is the one that is written back to the stored one
        wb_ = set()
        for b_, i_, x_ in ro.tops():
            a_ = as_assign(x_)
            if a_ and rcn.s(a_[0]) == STORED:
                for y_ in walk(ro.resolve(a_[1])):
                    if isinstance(y_, dict) and y_.get("k") == "var" and y_.get("id") in newv:
                        wb_.add(y_["id"])
        if len(wb_) == 1:
            newv = list(wb_)
    if len(newv) != 1 or len(curhe) != 1 or len(curhf) != 1:
        raise AnalysisBroken("%s: reorder_incident_halffaces: the roles (new list %d, running halfedge %d, running halfface %d) are not recognised - re-audit rule C09.walk" % (ro.where, len(newv), len(curhe), len(curhf)))
    alias = sorted([(STORED, "incident_hfs"), (HE, "heh"), (rcn._name[newv[0]], "new_halffaces"), (rcn._name[curhe[0]], "cur_heh"), (rcn._name[list(curhf)[0]], "cur_hf")], key=lambda z: -len(z[0]))

    def R(node):
        t_ = rcn.s(node)
        for cstr, al in alias:
            t_ = re.sub(r"(?<![A-Za-z0-9_])%s(?![A-Za-z0-9_])" % re.escape(cstr), al, t_)
        return t_
    loops = ro.loops()
    if len(loops) < 2:
        raise AnalysisBroken("C09: reorder_incident_halffaces: expected two walks (loops), found %d" % len(loops))
    pushes = [(b, i, x) for b, i, x in ro.nodes(("call",)) if x.get("pn", "").split("::")[-1] == "push_back" and "new_halffaces" in R(ro.resolve(x.get("r")))]
    inserts = [(b, i, x) for b, i, x in ro.nodes(("call",)) if x.get("pn", "").split("::")[-1] == "insert" and "new_halffaces" in R(ro.resolve(x.get("r")))]
    ok = len(pushes) == 1
    (ck.ok if ok else lambda r, w, t: ck.violate(r, w, t, "C09.walk:append"))("C09.walk", ro.where, "forward walk appends each visited halfface (%d push_back on the new list)" % len(pushes))
    okp = False
    for b, i, x in inserts:
        a = [R(y) for y in ro.resolve(x.get("a", []))]
        if len(a) == 2 and "begin()" in a[0] and "new_halffaces" in a[0]:
            # one element at the front, inside the backward loop
            okp = any(b in body for hdr, body, backs in loops)
        if len(a) == 3 and "begin()" in a[0] and "rbegin()" in a[1] and "rend()" in a[2]:
            okp = True
    (ck.ok if (okp and len(inserts) == 1) else lambda r, w, t: ck.violate(r, w, t, "C09.walk:prepend"))("C09.walk", ro.where, "backward walk prepends: front insertion of each halfface (or one insertion of the reversed range); found %s" % [R(ro.resolve(x.get("a", [])))[:70] for b, i, x in inserts])
    # abort bounds
    rets = [(b, x) for b, i, x in ro.tops() if x.get("k") == "ret" and b in ro.reach()]
    nb = sum(1 for b, x in rets if any("new_halffaces.size()" in R(cn) and "incident_hfs.size()" in R(cn) and ">" in R(cn) and pol is True for cn, pol, e in ro.facts(b)))
    (ck.ok if nb >= 2 else lambda r, w, t: ck.violate(r, w, t, "C09.walk:bound"))("C09.walk", ro.where, "both walks abort when the new list outgrows the stored one (%d bounded exits)" % nb)
    # step calls
    seq = [(b, i, x.get("pn", "").split("::")[-1], R(ro.resolve(x.get("a", [])))) for b, i, x in sorted(ro.nodes(("call",)), key=lambda z: (-z[0], z[1])) if x.get("pn", "").split("::")[-1] in ("adjacent_halfface_in_cell", "opposite_halfface_handle", "opposite_halfedge_handle")]
    adj = [s for s in seq if s[2] == "adjacent_halfface_in_cell"]
    ok = len(adj) == 2 and all("cur_hf" in s[3] and "cur_heh" in s[3] for s in adj)
    (ck.ok if ok else lambda r, w, t: ck.violate(r, w, t, "C09.walk:step"))("C09.walk", ro.where, "both walks step with adjacent_halfface_in_cell(cur_hf, cur_heh)")
    heh_sw = [s for s in seq if s[2] == "opposite_halfedge_handle" and s[3] == "heh"]
    asg = [R(x) for b, i, x in ro.tops() if x.get("k") in ("asg", "call") and R(x).startswith("cur_heh =") or (as_assign(x) and R(as_assign(x)[0]) == "cur_heh")]
    ok = any("opposite_halfedge_handle(heh)" in s for s in asg)
    (ck.ok if ok else lambda r, w, t: ck.violate(r, w, t, "C09.walk:backedge"))("C09.walk", ro.where, "the backward walk switches to the opposite halfedge (%s)" % asg)
    # write back
    tr = [x for b, i, x in ro.nodes(("call",)) if x.get("pn", "") == "std::transform"]
    ok = False
    for x in tr:
        a = [R(y) for y in ro.resolve(x.get("a", []))]
        if len(a) == 4 and "rbegin()" in a[0] and "rend()" in a[1] and "opposite_halfedge_handle(heh)" in a[2] and "begin()" in a[2] and "opposite_halfface_handle" in a[3]:
            ok = True
    (ck.ok if ok else lambda r, w, t: ck.violate(r, w, t, "C09.walk:mirror"))("C09.walk", ro.where, "the opposite halfedge receives the reversed list mapped through opposite_halfface_handle")
    wb = [(b, x) for b, i, x in ro.tops() if as_assign(x) and R(as_assign(x)[0]) == "incident_hfs"]
    ok = bool(wb) and all(any("new_halffaces.size()" in R(cn) and "incident_hfs.size()" in R(cn) and "==" in R(cn) and pol is True for cn, pol, e in ro.facts(b)) for b, x in wb)
    (ck.ok if ok else lambda r, w, t: ck.violate(r, w, t, "C09.walk:complete"))("C09.walk", ro.where, "the stored list is replaced only when every halfface was visited (sizes equal)")

def run_c09(ck, fb, fbd):
    c = Ctx(ck, fb)
    cores = delete_cores(c)
    # an index swap relabels the per-halfedge lists in place: relabelling a shared list twice leaves the old order (shared with C17)
    from .lockstep import relabel_rules
    relabel_rules(c)
    # the order is observed through the halfedge-halfface circulator: its stepping protocol (shared with C05)
    from .c05 import circulators
    circulators(ck, fb)
    cm = c.cm
    ck.rule("C09.trigger", "reorder_incident_halffaces(e) is called for the affected edges in add_cell, delete_face_core (after the unlink), delete_cell_core (after the incident-cell reset) and in enable_edge/face_bottom_up_incidences - in every deletion mode (no deferred/fast condition), exactly when both the edge and the face kind are available")
    ck.rule("C09.walk", "inside reorder_incident_halffaces the forward walk appends and steps with adjacent_halfface_in_cell + opposite_halfface_handle along the halfedge, the backward walk uses the opposite halfedge and prepends (front insertion / reverse range), both walks abort when they outgrow the stored list, and the ordered list is written back together with its mirrored reverse for the opposite halfedge")
    ck.rule("C09.adjacent", "adjacent_halfface_in_cell accepts another halfface of the cell only if it contains the opposite of the given halfedge, is not the given halfface and is not its opposite halfface; the opposite halfface - a cell may contain both sides of a face - is remembered and is the answer only when the cell has no other halfface at the edge")
    ro = [f for f in c.fns if f.name == "reorder_incident_halffaces"]
    if not ro:
        raise AnalysisBroken("anchor vanished: TopologyKernel::reorder_incident_halffaces")
    ro = ro[0]
    he, hf = c.has_name(km_cache(c, "Edge")), c.has_name(km_cache(c, "Face"))
    flags = {cm.kinds[km_cache(c, "Edge")]["flag"], cm.kinds[km_cache(c, "Face")]["flag"]}
    elem = elem_effects(c)
    want = {"add_cell": None, cores["Face"].name: km_cache(c, "Edge"), cores["Cell"].name: km_cache(c, "Face")}
    callers = {}
    for g, b, i, n in fb.callers(ro.id):
        if g.has_cfg and b in g.reach() and "/src/OpenVolumeMesh/" in g.file:
            callers.setdefault(g.name, []).append((g, b, i, n))
    for name in list(want) + [k["enable_name"] for cch, k in cm.kinds.items() if cch in (km_cache(c, "Edge"), km_cache(c, "Face"))]:
        sites = callers.get(name, [])
        if not sites:
            ck.violate("C09.trigger", "TopologyKernel::" + name, "%s no longer calls reorder_incident_halffaces" % name, "C09.trigger:%s:missing" % name)
            continue
        for g, b, i, n in sites:
            at = atoms_at(g, b)
            mode = [a for a in at if a[0] in MODE_ATOMS]
            if name.startswith("enable_"):
                # both kinds available: the other kind's flag true, own kind established by compute (G rule) - here: the other flag is tested
                other_ok = any(a[0] in flags and a[1] is True for a in at)
                ok = other_ok and not mode
            else:
                ok = (he, True) in at and (hf, True) in at and not mode
                # any further condition skips the re-ordering for some edges: only lists with fewer than two
                # halffaces are trivially ordered (and mirrored), so the only admissible extra atom is such a size test
                for cnd, pol in at:
                    if (cnd, pol) in ((he, True), (hf, True)) or cnd in MODE_ATOMS:
                        continue
                    m = re.match(r"^\((.*)\.size\(\) (>|>=|!=|<|<=|==) (\d+)\)$", cnd)
                    thr = None
                    if m and pol is True and m.group(2) in (">", ">=", "!="):
                        thr = int(m.group(3)) + (1 if m.group(2) == ">" else 0)  # smallest size that still reorders
                        if m.group(2) == "!=":
                            thr = 1 if m.group(3) == "0" else 99
                    elif m and pol is False and m.group(2) in ("<", "<=", "=="):
                        thr = int(m.group(3)) + (1 if m.group(2) == "<=" else 0)
                        if m.group(2) == "==":
                            thr = 1 if m.group(3) == "0" else 99
                    elif re.match(r"^(.*\.)?empty\(\)$", cnd) and pol is False:
                        thr = 1
                    if thr is None and (cnd.startswith("has_") and cnd.endswith("bottom_up_incidences()")):
                        # another availability predicate (vertex kind, 'full'): the re-ordering needs the edge and the face kind only
                        ok = False
                        continue
                    if thr is None:
                        raise AnalysisBroken("%s: %s re-orders under the additional condition %s%s which rule C09.trigger cannot judge - re-audit" % (g.loc(n), name, "" if pol else "!", cnd))
                    if thr > 2:
                        ok = False
            (ck.ok if ok else lambda r, w, t: ck.violate(r, w, t, "C09.trigger:%s" % name))("C09.trigger", g.loc(n), "%s reorders under %s (both kinds, no deletion-mode condition)" % (name, fmt_atoms(at)))
            cache = want.get(name)
            if cache:
                un = [e for e in elem.get(g.id, []) if e["cache"] == cache and e["what"] in ("unlink", "assign")]
                ok = bool(un) and all(not g.dominates((b, i), e["pos"]) and (e["pos"][0] != b or e["pos"][1] < i) for e in un)
                (ck.ok if ok else lambda r, w, t: ck.violate(r, w, t, "C09.trigger:%s:after" % name))("C09.trigger", g.loc(n), "%s reorders only after the victim has been removed from %s" % (name, cache))
    walk_rules(ck, fb, ro)
    # adjacent_halfface_in_cell
    ad = [f for f in c.fns if f.name == "adjacent_halfface_in_cell"]
    if not ad:
        raise AnalysisBroken("anchor vanished: TopologyKernel::adjacent_halfface_in_cell")
    ad = ad[0]
    acn = Canon(ad)
    CAND = "each(cell(incident_cell(P0)).halffaces())"
    HEc = "each(halfface(%s).halfedges())" % CAND
    cand = []
    for b, i, x in ad.tops():
        a = as_assign(x)
        if (a and re.fullmatch(r"v\d+", acn.s(a[0])) and acn.s(a[1]) == CAND) or (x.get("k") == "ret" and acn.s(x.get("x")) == CAND):
            cand.append((b, x))
    if len(cand) < 2:
        raise AnalysisBroken("C09: adjacent_halfface_in_cell: candidate sites (result = a halfface of the cell of the given halfface) not recognised (%d)" % len(cand))
    OPPF = ceq(CAND, "opposite_halfface_handle(P0)", "!=")
    OPPF_EQ = ceq(CAND, "opposite_halfface_handle(P0)", "==")
    fallback = [(b, x) for b, x in cand if (OPPF, False) in {(s_, p_) for s_, p_, c_ in acn.facts(b)} or (OPPF_EQ, True) in {(s_, p_) for s_, p_, c_ in acn.facts(b)}]
    primary_vars = {acn.s(as_assign(x)[0]) for b, x in cand if (b, x) not in fallback and as_assign(x)}
    # the opposite halfface (a cell may contain both sides of a face) is the answer of last resort: remembered, never returned
    # on the spot, and handed out only when no other halfface of the cell lies at the edge (F48)
    fb_ok = bool(fallback)
    why_fb = "no fallback to the opposite halfface"
    for b, x in fallback:
        at = {(s_, p_) for s_, p_, c_ in acn.facts(b)}
        a_ = as_assign(x)
        if not a_ or (ceq("opposite_halfedge_handle(%s)" % HEc, "P1"), True) not in at or (ceq(CAND, "P0"), False) not in at:
            fb_ok = False
            why_fb = "the opposite halfface is returned on the spot or without the opposite-halfedge fact"
            continue
        F = acn.s(a_[0])
        rets = [(bb, y) for bb, ii, y in ad.tops() if y.get("k") == "ret" and acn.s(y.get("x")) == F and bb in ad.reach()]
        good = bool(rets) and all(any((("%s.is_valid()" % pv), False) in {(s_, p_) for s_, p_, c_ in acn.facts(bb)} for pv in primary_vars) for bb, y in rets)
        if not good:
            fb_ok = False
            why_fb = "the remembered opposite halfface is returned although another candidate may exist"
        else:
            why_fb = "remembered in %s, returned only when %s is invalid" % (F, sorted(primary_vars))
    (ck.ok if fb_ok else lambda r, w, t: ck.violate(r, w, t, "C09.adjacent:fallback"))("C09.adjacent", ad.where, "a cell made of both sides of a face: the opposite halfface is the answer exactly when the cell has no other halfface at the edge (%s)" % why_fb)
    for b, x in cand:
        if (b, x) in fallback:
            continue
        at = {(s_, p_) for s_, p_, c_ in acn.facts(b)}
        need = [(ceq("opposite_halfedge_handle(%s)" % HEc, "P1"), True), (ceq(CAND, "opposite_halfface_handle(P0)", "!="), True), (ceq(CAND, "P0"), False)]
        ok = all(nd in at for nd in need)
        (ck.ok if ok else lambda r, w, t: ck.violate(r, w, t, "C09.adjacent:%s" % ("return" if x.get("k") == "ret" else "remember")))("C09.adjacent", ad.loc(x), "a halfface of the cell is %s only if it contains the opposite halfedge and is neither the given halfface nor its opposite" % ("returned" if x.get("k") == "ret" else "remembered"))
    # the legacy flip: halfedge replaced by its opposite only if the halfface contains the opposite and not the halfedge itself
    OWN = "each(halfface(P0).halfedges())"
    has = hasopp = None
    for vid, ms in acn.mods.items():
        for kind_, bb, ii, m_ in ms:
            a_ = as_assign(m_)
            if not a_ or acn.s(a_[1]) != "true":
                continue
            fs_ = {(s_, p_) for s_, p_, c_ in acn.facts(bb)}
            if (ceq(OWN, "P1"), True) in fs_:
                has = acn.s(a_[0])
            if (ceq(OWN, "opposite_halfedge_handle(P1)"), True) in fs_:
                hasopp = acn.s(a_[0])
    if has is None or hasopp is None:
        raise AnalysisBroken("%s: adjacent_halfface_in_cell: the contains-halfedge / contains-opposite flags are not recognised - re-audit rule C09.adjacent" % ad.where)
    flips = [(b, x) for b, i, x in ad.tops() if as_assign(x) and acn.s(as_assign(x)[0]) == "P1"]
    ok = bool(flips) and all({(has, False), (hasopp, True)} <= {(s_, p_) for s_, p_, c_ in acn.facts(b)} and acn.s(as_assign(x)[1]) == "opposite_halfedge_handle(P1)" for b, x in flips)
    (ck.ok if ok else lambda r, w, t: ck.violate(r, w, t, "C09.adjacent:flip"))("C09.adjacent", ad.where, "the halfedge is flipped only when the halfface contains its opposite but not the halfedge itself")
