"""Verdict protocol, evidence writer, known findings."""
import json
import os
import sys
import time

from .extract import VERIF, AnalysisBroken

OUT = os.path.join(VERIF, "out")
EVID = os.path.join(VERIF, "evidence")
KNOWN = os.path.join(VERIF, "known_findings.jsonl")


def load_known(pid):
    res = []
    if os.path.exists(KNOWN):
        for ln in open(KNOWN):
            ln = ln.strip()
            if not ln or ln.startswith("#"):
                continue
            e = json.loads(ln)
            if e.get("property") == pid:
                res.append(e)
    return res


class Check:
    def __init__(self, pid, tier, seed=0, level="other"):
        self.pid = pid
        self.tier = tier
        self.seed = seed
        self.level = level
        self.t0 = time.time()
        self.oblig = []  # dict(rule, where, what, status, key)
        self.counts = {}
        self.floors = []
        self.notes = []
        self.samples = []
        self.analysed = {}
        self.rules = {}
        self.assumptions = []
        self.trusted = ["clang 14 front end and clang::CFG construction", "ovm-extract expression normalisation (/verif/tools/ovm-extract.cc)"]
        self.canaries = []
        self.replay_key = None
        self.unjudged = []

    # ---- obligations
    def rule(self, rid, text):
        self.rules[rid] = text

    def ok(self, rule, where, what, sample=True):
        self.oblig.append({"rule": rule, "where": where, "what": what, "status": "discharged"})

    def violate(self, rule, where, what, key, detail=None):
        self.oblig.append({"rule": rule, "where": where, "what": what, "status": "violated", "key": key, "detail": detail})

    def count(self, name, n=1):
        self.counts[name] = self.counts.get(name, 0) + n

    def floor(self, name, value, minimum):
        self.floors.append({"name": name, "value": value, "floor": minimum})
        if value < minimum:
            raise AnalysisBroken("%s: instance count %s=%d fell below the confirmed floor %d (anchor moved or idiom no longer recognised)" % (self.pid, name, value, minimum))

    def cannot_judge(self, msg):
        """a construct is written in a form the rule does not know: exit 2 at the end - unless another obligation of this
        run is violated, which is reported first (a violation found elsewhere stays a violation)"""
        self.unjudged.append(msg)
        self.note("not judged: " + msg)

    def canary(self, name, fired):
        self.canaries.append({"canary": name, "fired": bool(fired)})
        if not fired:
            raise AnalysisBroken("%s: canary %s did not fire - the rule would pass vacuously" % (self.pid, name))

    def note(self, s):
        self.notes.append(s)

    # ---- finish
    def finish(self):
        os.makedirs(OUT, exist_ok=True)
        os.makedirs(EVID, exist_ok=True)
        if self.replay_key is None:
            for fn in os.listdir(OUT):
                if fn.startswith(self.pid + "_") and fn.endswith(".json"):
                    os.remove(os.path.join(OUT, fn))
        known = load_known(self.pid)
        known_keys = {e["key"]: e for e in known if e.get("status") == "known"}
        viol = [o for o in self.oblig if o["status"] == "violated"]
        if self.unjudged and not [v for v in viol if v["key"] not in known_keys]:
            raise AnalysisBroken(self.unjudged[0])
        new, listed = [], []
        for v in viol:
            if v["key"] in known_keys:
                v["status"] = "known-finding"
                listed.append(v)
            else:
                new.append(v)
        if self.replay_key is not None:
            new = [v for v in new if v["key"] == self.replay_key]
        uniq, seenk = [], set()
        for v in new:
            if v["key"] not in seenk:
                seenk.add(v["key"])
                uniq.append(v)
        new = uniq
        seen = set()
        for v in listed:
            if v["key"] in seen:
                continue
            seen.add(v["key"])
            print("KNOWN-FINDING: property=%s %s [%s] %s" % (self.pid, v["key"], v["where"], known_keys[v["key"]].get("what", v["what"])))
        stale = [k for k in known_keys if k not in seen]
        for k in stale:
            self.note("known finding no longer reported by the analysis: " + k)
        disc = [o for o in self.oblig if o["status"] == "discharged"]
        # samples: a few discharged obligations per rule + all violations
        per_rule = {}
        for o in disc:
            per_rule.setdefault(o["rule"], [])
            if len(per_rule[o["rule"]]) < 3:
                per_rule[o["rule"]].append({"rule": o["rule"], "where": o["where"], "obligation": o["what"], "status": "discharged"})
        samples = [s for lst in per_rule.values() for s in lst]
        for v in viol:
            samples.append({"rule": v["rule"], "where": v["where"], "obligation": v["what"], "status": v["status"], "key": v["key"]})
        samples.extend(self.samples)
        distinct = len({(o["rule"], o["where"], o["what"]) for o in self.oblig})
        replay_files = []
        for n, v in enumerate(new):
            p = os.path.join(OUT, "%s_%03d.json" % (self.pid, n))
            json.dump({"property": self.pid, "rule": v["rule"], "rule_text": self.rules.get(v["rule"], ""), "where": v["where"], "what": v["what"], "key": v["key"], "detail": v.get("detail")}, open(p, "w"), indent=1)
            replay_files.append(p)
        cov = {
            "explanation": "static analysis over the resolved program (libTooling fact base: CFG, guards, call graph); decides the structural clauses named in the rules, not the runtime behaviour",
            "rules": self.rules,
            "obligations": len(self.oblig),
            "discharged": len(disc),
            "known_findings": len(listed),
            "evaluations": max(1, len(self.oblig)),
            "distinct_nontrivial": max(2, distinct) if self.oblig else 0,
            "rule": "one obligation per (rule, construct) instance found in the current tree; distinct = distinct (rule, location, obligation) triples",
            "samples": samples[:60],
            "analysed": self.analysed,
            "counts": self.counts,
            "floors": self.floors,
            "canaries": self.canaries,
            "checker_cmd": "./check %s --tier %s" % (self.pid, self.tier),
            "trusted_base": self.trusted,
            "exhaustive": True,
            "notes": self.notes,
        }
        ev = {
            "property_id": self.pid,
            "tier": self.tier,
            "seed": self.seed,
            "level": self.level,
            "coverage": cov,
            "assumptions": self.assumptions,
            "wall_s": round(time.time() - self.t0, 2),
            "violations": len(new),
        }
        json.dump(ev, open(os.path.join(EVID, self.pid + ".json"), "w"), indent=1)
        print("%s: %d obligations, %d discharged, %d known findings, %d violations; analysed %s" % (self.pid, len(self.oblig), len(disc), len(listed), len(new), json.dumps(self.analysed)))
        for v, p in zip(new, replay_files):
            print("  [%s] %s: %s" % (v["rule"], v["where"], v["what"]))
            print("VIOLATION property=%s replay=%s" % (self.pid, p))
        return 1 if new else 0
