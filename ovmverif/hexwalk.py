"""C16.hexwalk - the vertex walk of HexVertexIter, interpreted on the abstract convention cube.

All hexahedra are combinatorially the same cube.  The constructor of HexVertexIter is a straight-line sequence of in-cell
navigation steps (prev/next_halfedge_in_halfface, adjacent_halfface_in_cell, opposite_halfedge_handle, from/to_vertex); the
rule reads that sequence from the source, interprets it over the abstract cube in the stored convention (halfface 0 = x-front,
1 = x-back, the sides around halfface 0 in the cyclic order 2,4,3,5) for every rotation of the side faces and every choice of
the first halfedge of every face (4 * 4^5 configurations - the walk may not depend on them), and compares the eight reported
vertices with the documented pattern.  This is abstract interpretation of the extracted terms over a finite model of the data
structure, not an execution of the library: no mesh is built, no repository code runs.

A mesh-wide lookup (find_halfedge / find_halfface / halfedge(v,v)) inside the walk is a violation on sight: an edge between
two vertices of the cell need not be an edge *of the cell*.  Any other unknown step is not judged (exit 2)."""
from itertools import product

from .extract import AnalysisBroken
from .facts import as_assign, unwrap

HEXIT = "OpenVolumeMesh::HexVertexIter"
GLOBAL_LOOKUPS = ("find_halfedge", "find_halfface", "find_halfface_extensive", "find_halfedge_in_cell", "find_halfface_in_cell")


class Unknown(Exception):
    pass


class GlobalLookup(Exception):
    pass


class Cube:
    def __init__(self, rot, starts):
        a = [("a", i) for i in range(4)]
        b = [("b", i) for i in range(4)]
        self.faces = {}
        self.faces["XF"] = [a[0], a[1], a[2], a[3]]
        self.faces["XB"] = [b[3], b[2], b[1], b[0]]
        for i in range(4):
            j = (i + 1) % 4
            self.faces["S%d" % i] = [a[j], a[i], b[i], b[j]]
        side_order = [2, 4, 3, 5]  # slots met when walking around halfface 0
        self.cell = [None] * 6
        self.cell[0], self.cell[1] = "XF", "XB"
        for k in range(4):
            self.cell[side_order[k]] = "S%d" % ((rot + k) % 4)
        self.start = {"XF": 0}
        for fname, s in zip(("XB", "S0", "S1", "S2", "S3"), starts):
            self.start[fname] = s
        self.face_of = {}
        for fn, vs in self.faces.items():
            for k in range(4):
                self.face_of[(vs[k], vs[(k + 1) % 4])] = fn

    def halfedges(self, fn):
        vs = self.faces[fn]
        s = self.start[fn]
        return [(vs[(s + k) % 4], vs[(s + k + 1) % 4]) for k in range(4)]

    def step(self, he, fn, d):
        hs = self.halfedges(fn)
        if he not in hs:
            raise Unknown("halfedge %s is not part of halfface %s" % (he, fn))
        return hs[(hs.index(he) + d) % 4]

    def adjacent(self, fn, he):
        opp = (he[1], he[0])
        if self.face_of.get(he) == fn:
            return self.face_of[opp]
        if self.face_of.get(opp) == fn:
            return self.face_of[he]
        raise Unknown("halfedge %s does not lie on halfface %s" % (he, fn))


def evaluate(f, cube, region):
    """interpret the statements of the straight-line region; returns the pushed vertices"""
    env, out = {}, []

    def ev(n):
        n = unwrap(n)
        if not isinstance(n, dict):
            raise Unknown("literal %r" % (n,))
        k = n.get("k")
        if k == "var":
            if n.get("s") == "param":
                t = n.get("t", "")
                if "TopologyKernel" in t:
                    return ("MESH",)
                if "CH" in t:
                    return ("CELLH",)
                raise Unknown("parameter %s" % n.get("n"))
            if n.get("id") in env:
                return env[n["id"]]
            raise Unknown("local %s has no value on this path" % n.get("n"))
        if k == "lit" and isinstance(n.get("v"), int):
            return n["v"]
        if k == "idx":
            base, i = ev(n["b"]), ev(n["i"])
            if isinstance(base, list) and isinstance(i, int) and 0 <= i < len(base):
                return base[i]
            raise Unknown("index expression")
        if k == "un" and n.get("op") == "*":
            it = ev(n["x"])
            if isinstance(it, tuple) and it[0] == "IT":
                return it[1][it[2]]
            raise Unknown("dereference")
        if k == "mem" and n.get("f"):
            raise Unknown("member %s" % n.get("f"))
        if k != "call":
            raise Unknown("expression kind %s" % k)
        nm = n.get("pn", n.get("n", "")).split("::")[-1]
        args = n.get("a", [])
        if nm in GLOBAL_LOOKUPS or (nm == "halfedge" and len(args) == 2) or (nm == "halfface" and len(args) == 1 and "vector" in str(unwrap(args[0]).get("t", ""))):
            raise GlobalLookup(nm)
        recv = ev(n["r"]) if n.get("r") is not None else None
        if nm == "cell" and len(args) == 1:
            if ev(args[0]) == ("CELLH",):
                return ("CELL",)
            raise Unknown("cell() of another handle")
        if nm == "halffaces" and recv == ("CELL",):
            return list(cube.cell)
        if nm == "halfface" and len(args) == 1:
            h = ev(args[0])
            if isinstance(h, str):
                return ("FACE", h)
            raise Unknown("halfface() argument")
        if nm == "halfedges" and isinstance(recv, tuple) and recv[0] == "FACE":
            return cube.halfedges(recv[1])
        if nm == "halfedge" and len(args) == 1:
            h = ev(args[0])
            if isinstance(h, tuple) and len(h) == 2 and isinstance(h[0], tuple):
                return ("EDGE", h)
            raise Unknown("halfedge() argument")
        if nm in ("from_vertex", "to_vertex") and isinstance(recv, tuple) and recv[0] == "EDGE":
            return recv[1][0 if nm == "from_vertex" else 1]
        if nm in ("from_vertex_handle", "to_vertex_handle") and len(args) == 1:
            h = ev(args[0])
            return h[0 if nm == "from_vertex_handle" else 1]
        if nm in ("begin", "cbegin") and isinstance(recv, list):
            return ("IT", recv, 0)
        if nm == "front" and isinstance(recv, list):
            return recv[0]
        if nm == "back" and isinstance(recv, list):
            return recv[-1]
        if n.get("op") == "*" and isinstance(recv, tuple) and recv[0] == "IT":
            return recv[1][recv[2]]
        if n.get("op") == "[]" and isinstance(recv, list) and len(args) == 1:
            i = ev(args[0])
            if isinstance(i, int) and 0 <= i < len(recv):
                return recv[i]
            raise Unknown("subscript")
        if nm in ("prev_halfedge_in_halfface", "next_halfedge_in_halfface") and len(args) >= 2:
            he, fn = ev(args[0]), ev(args[1])
            if not isinstance(fn, str):
                raise Unknown("%s: halfface argument" % nm)
            return cube.step(he, fn, -1 if nm.startswith("prev") else 1)
        if nm == "adjacent_halfface_in_cell" and len(args) >= 2:
            fn, he = ev(args[0]), ev(args[1])
            if not isinstance(fn, str):
                raise Unknown("adjacent_halfface_in_cell: halfface argument")
            return cube.adjacent(fn, he)
        if nm == "opposite_halfedge_handle" and len(args) == 1:
            he = ev(args[0])
            return (he[1], he[0])
        if nm == "opposite_halfface_handle_in_cell" and len(args) >= 1:
            fn = ev(args[0])
            return cube.cell[cube.cell.index(fn) ^ 1]
        if nm in ("xfront_halfface", "xback_halfface", "yfront_halfface", "yback_halfface", "zfront_halfface", "zback_halfface"):
            return cube.cell[("xfront_halfface", "xback_halfface", "yfront_halfface", "yback_halfface", "zfront_halfface", "zback_halfface").index(nm)]
        raise Unknown("call of %s" % (n.get("pn") or n.get("n")))

    for b, i, x in region:
        x = f.resolve(x)
        if x.get("k") == "decl":
            for v in x["vars"]:
                if v.get("init") is not None:
                    try:
                        env[v["id"]] = ev(v["init"])
                    except Unknown:
                        pass  # only an error when the value is used
            continue
        a = as_assign(x)
        if a and a[2] == "=":
            l = unwrap(a[0])
            if isinstance(l, dict) and l.get("k") == "var" and l.get("s") != "param":
                env[l["id"]] = ev(a[1])
            continue
        if x.get("k") == "call" and x.get("pn", "").split("::")[-1] in ("push_back", "emplace_back") and "VH" in (x.get("cc") or x.get("rt") or ""):
            out.append(ev(x["a"][0]))
    return out


def hexwalk_rule(ck, fb):
    ck.rule("C16.hexwalk", "the constructor of HexVertexIter, interpreted on the abstract cube in the stored halfface convention for all 4 rotations of the side faces and all 4^5 choices of the first halfedge of the other faces, reports: the first halfface's vertices against its cyclic order starting at the source of its first halfedge, then the opposite halfface's vertices with pattern positions 0-4, 1-7, 2-6, 3-5 joined by edges of the cell; it navigates inside the cell only (no mesh-wide find_* lookup)")
    cands = [f for f in fb.fns.values() if f.has_cfg and f.pq == HEXIT + "::(ctor)" and f.file.endswith(".cc")]
    if len(cands) != 1:
        raise AnalysisBroken("anchor vanished: HexVertexIter constructor (%d candidates)" % len(cands))
    f = cands[0]
    pushes = [(b, i, x) for b, i, x in f.tops() if x.get("k") == "call" and x.get("pn", "").split("::")[-1] in ("push_back", "emplace_back") and "VH" in (x.get("cc") or x.get("rt") or "") and b in f.reach()]
    glob = [(b, i, x) for b, i, x in f.nodes(("call",)) if b in f.reach() and (x.get("pn", "").split("::")[-1] in GLOBAL_LOOKUPS)]
    if glob:
        for b, i, x in glob:
            ck.violate("C16.hexwalk", f.loc(x), "HexVertexIter navigates inside its cell only: %s is a lookup in the whole mesh - an edge or face between vertices of the cell need not belong to the cell (a diagonal edge, a face of a neighbour)" % x["pn"].split("OpenVolumeMesh::")[-1], "C16.hexwalk:global:%s" % x["pn"].split("::")[-1])
        return
    blocks = {b for b, i, x in pushes}
    if len(pushes) != 8 or len(blocks) != 1:
        ck.cannot_judge("C16.hexwalk %s: the walk is not a straight-line sequence with eight push_backs (%d push_back(s) in %d block(s)) - not judged" % (f.where, len(pushes), len(blocks)))
        return
    blk = blocks.pop()
    # the region: every statement that dominates the last push (declarations of earlier blocks included)
    last = pushes[-1]
    region = [(b, i, x) for b, i, x in f.tops() if (b == blk and i <= last[1]) or (b != blk and f.dominates((b, i), (last[0], last[1])))]
    order = {b: len([d for d in f.reach() if f.dominates((d, 0), (b, 0))]) for b in {r[0] for r in region}}
    region.sort(key=lambda r: (order[r[0]], r[1]))
    a = [("a", i) for i in range(4)]
    bb = [("b", i) for i in range(4)]
    want = [a[0], a[3], a[2], a[1], bb[0], bb[1], bb[2], bb[3]]
    n_cfg = 0
    bad = None
    try:
        for rot in range(4):
            for starts in product(range(4), repeat=5):
                n_cfg += 1
                got = evaluate(f, Cube(rot, starts), region)
                if got != want and bad is None:
                    bad = (rot, starts, got)
            # the walk of today's tree does not consult the start of any other face: all 1024 choices agree
    except GlobalLookup as ex:
        ck.violate("C16.hexwalk", f.where, "HexVertexIter navigates inside its cell only: %s is a lookup in the whole mesh" % ex, "C16.hexwalk:global:%s" % ex)
        return
    except Unknown as ex:
        ck.cannot_judge("C16.hexwalk %s: step outside the in-cell navigation vocabulary (%s) - not judged" % (f.where, ex))
        return
    ck.analysed["hexwalk_configurations"] = n_cfg
    fmt = lambda vs: " ".join("%s%d" % v for v in vs)
    if bad is None:
        ck.ok("C16.hexwalk", f.where, "HexVertexIter reports %s on all %d configurations of the abstract cube" % (fmt(want), n_cfg))
    else:
        ck.violate("C16.hexwalk", f.where, "HexVertexIter reports the documented pattern %s (side rotation %d, first halfedges %s: got %s)" % (fmt(want), bad[0], bad[1], fmt(bad[2]) if all(isinstance(v, tuple) and len(v) == 2 and isinstance(v[1], int) for v in bad[2]) else bad[2]), "C16.hexwalk:pattern")
    ck.floor("hexwalk_configurations", n_cfg, 4096)
