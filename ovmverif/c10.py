"""C10 - lookup queries (rule family K).

Decided here are the structural necessary conditions of soundness / completeness of the small search loops, on
name-independent canonical forms (canon.py): every hit is returned under the facts that make it a hit, the
candidate loops cannot leave early without a hit, a miss returns the invalid constant, every argument decides.
The behaviour (equality with a brute-force search on every reachable mesh) is not decided."""
import re

from .canon import Canon, ceq, eq_match, eq_sides, origin, split_eq
from .extract import AnalysisBroken
from .facts import estr, unwrap, walk
from .rule_l import atoms_at, fmt_atoms

KERNEL = "OpenVolumeMesh::TopologyKernel"
VEC_VH = "const std::vector<OpenVolumeMesh::VH> &"
VEC_HEH = "const std::vector<OpenVolumeMesh::HEH> &"
# name -> list of parameter-type signatures
LOOKUPS = {
    "find_halfedge": [["OpenVolumeMesh::VH", "OpenVolumeMesh::VH"]],
    "find_halfedge_in_cell": [["OpenVolumeMesh::VH", "OpenVolumeMesh::VH", "OpenVolumeMesh::CH"]],
    "find_halfface": [[VEC_VH], [VEC_HEH]],
    "find_halfface_in_cell": [[VEC_VH, "OpenVolumeMesh::CH"]],
    "find_halfface_extensive": [[VEC_VH]],
    "get_halfface_vertices": [["OpenVolumeMesh::HFH"], ["OpenVolumeMesh::HFH", "OpenVolumeMesh::VH"], ["OpenVolumeMesh::HFH", "OpenVolumeMesh::HEH"]],
    "is_incident": [["OpenVolumeMesh::FH", "OpenVolumeMesh::EH"]],
    "n_vertices_in_cell": [["OpenVolumeMesh::CH"]],
    # deprecated forwarding names
    "halfedge": [["OpenVolumeMesh::VH", "OpenVolumeMesh::VH"]],
    "halfface": [[VEC_VH], [VEC_HEH]],
    "halfface_extensive": [[VEC_VH]],
}
INVALID = {"OpenVolumeMesh::HEH": "InvalidHalfEdgeHandle", "OpenVolumeMesh::HFH": "InvalidHalfFaceHandle"}


def sig(f):
    return [p["t"] for p in f.d["params"]]


def lookup(fb, name, types):
    c = [f for f in fb.by_cls.get(KERNEL, []) if f.name == name and f.has_cfg and sig(f) == types]
    if len(c) != 1:
        raise AnalysisBroken("anchor vanished: TopologyKernel::%s(%s) (found %d definitions)" % (name, ", ".join(t.split("::")[-1] for t in types), len(c)))
    return c[0]


class L:
    """one lookup function with its canonical view"""

    def __init__(self, f):
        self.f = f
        self.cn = Canon(f)
        self.rets = [(b, i, n) for b, i, n in f.tops() if n.get("k") == "ret" and b in f.reach()]
        self.rt = f.d.get("rt") or ""
        self.loops = f.loops()

    def is_invalid(self, n):
        x = unwrap(n.get("x"))
        s = self.cn.s(x)
        return s in ("InvalidHalfEdgeHandle", "InvalidHalfFaceHandle", "false", "HEH(-1)", "HFH(-1)")

    def valid_rets(self):
        return [(b, i, n) for b, i, n in self.rets if not self.is_invalid(n)]

    def invalid_rets(self):
        return [(b, i, n) for b, i, n in self.rets if self.is_invalid(n)]

    def in_loop(self, b):
        return [lp for lp in self.loops if b in lp[1]]

    def facts(self, b):
        return self.cn.facts(b)

    def endpoint_facts(self, b):
        """{(which, canonical halfedge, canonical vertex)} from equalities from/to(h) == v that hold at block b"""
        out = set()
        for s, pol, c in self.facts(b):
            e = eq_sides(c, pol)
            if not e:
                continue
            for a, o in (e, e[::-1]):
                ep = self.endpoint(a)
                if ep:
                    out.add((ep[0], ep[1], self.cn.s(o)))
        return out

    def endpoint(self, n):
        n = unwrap(self.f.resolve(n))
        hops = 0
        while isinstance(n, dict) and n.get("k") == "var" and self.cn.kind.get(n.get("id")) == "pure" and hops < 8:
            n = unwrap(self.f.resolve(self.cn.decl[n["id"]][0]["init"]))
            hops += 1
        if not isinstance(n, dict) or n.get("k") != "call":
            return None
        name = n.get("pn", n.get("n", "")).split("::")[-1]
        if name in ("from_vertex_handle", "to_vertex_handle") and len(n.get("a", [])) == 1:
            return name.split("_")[0], self.cn.s(n["a"][0])
        if name in ("from_vertex", "to_vertex") and n.get("r") is not None:
            r = unwrap(n["r"])
            hops = 0
            while isinstance(r, dict) and r.get("k") == "var" and self.cn.kind.get(r.get("id")) == "pure" and hops < 8:
                r = unwrap(self.f.resolve(self.cn.decl[r["id"]][0]["init"]))
                hops += 1
            if isinstance(r, dict) and r.get("k") == "call" and r.get("pn", r.get("n", "")).split("::")[-1] == "halfedge" and len(r.get("a", [])) == 1:
                return name.split("_")[0], self.cn.s(r["a"][0])
        return None

    def org(self, node):
        o = origin(self.cn, node)
        if o is None:
            return None
        return o[0], self.cn.s(o[1]), [self.cn.s(x) for x in o[2]]

    def chain(self, node):
        """[(relation, canonical owner), ...] following the owners: halfedge of halfface F, F halfface of cell c, ..."""
        out = []
        while node is not None and len(out) < 4:
            o = origin(self.cn, node)
            if o is None:
                break
            out.append((o[0], self.cn.s(o[1])))
            node = o[1]
        return out

    def chain_s(self, canon_str, nodes):
        for n in nodes:
            if self.cn.s(n) == canon_str:
                c = self.chain(n)
                if c:
                    return c
        return []

    def org_s(self, canon_str, nodes):
        """origin of the first node among `nodes` whose canonical string equals canon_str"""
        for n in nodes:
            if self.cn.s(n) == canon_str:
                o = self.org(n)
                if o:
                    return o
        return None

    def subexprs(self, b):
        """all sub-expression nodes of the guard facts of block b and of the returned expression"""
        out = []
        for c, pol, e in self.f.facts(b):
            out += [x for x in walk(c) if isinstance(x, dict)]
        return out


def opp_he(h):
    return ("opposite_halfedge_handle(%s)" % h, "%s.opposite_handle()" % h)


def run(ck, fb, fbd):
    ck.rule("K.dep", "every argument decides: each returned hit of a lookup depends (through the returned expression, the guard facts at the return and the definitions of the locals in them) on every parameter of the function")
    ck.rule("K.exhaust", "a loop over candidates is left only through its own bound or by returning a hit: no break / return of the invalid constant inside a candidate loop (a later candidate that matches would be missed)")
    ck.rule("K.miss", "every return that is not a hit returns the invalid constant of the result type (false for predicates), and one of them lies after all loops")
    ck.rule("K.match", "a hit is returned exactly under the facts that make it a hit (per function: see the obligation texts)")
    fns = {}
    for name, sigs in LOOKUPS.items():
        for types in sigs:
            fns[(name, tuple(types))] = L(lookup(fb, name, types))
    ck.analysed["lookup_functions"] = len(fns)
    ck.floor("lookup_functions", len(fns), 15)

    # ------------------------------------------------------------------ generic rules
    nret = nloops = 0
    for (name, types), l in fns.items():
        f, cn = l.f, l.cn
        np_ = len(f.d["params"])
        hits = l.valid_rets()
        if not hits:
            ck.violate("K.match", f.where, "%s never returns a hit" % name, "K.match:%s:nohit" % f.pq)
        for b, i, n in hits:
            nret += 1
            miss = dep_missing(l, b, n)
            (ck.ok if not miss else lambda r, w, t: ck.violate(r, w, t, "K.dep:%s/%d:%s" % (f.pq, np_, ",".join(miss))))("K.dep", f.loc(n), "%s(%s): hit '%s' depends on every parameter%s" % (name, ", ".join(t.split("::")[-1].rstrip(" &") for t in types), cn.s(n.get("x"))[:60], "" if not miss else " - NOT on " + ", ".join(miss)))
        # candidate loops
        for hdr, bad in early_exits(l):
            nloops += 1
            t = f.term(hdr)
            (ck.ok if not bad else lambda r, w, t_: ck.violate(r, w, t_, "K.exhaust:%s/%d" % (f.pq, np_)))("K.exhaust", f.loc(t) if t else f.where, "%s: the candidate loop is left only through its bound or with a hit%s" % (name, "" if not bad else " - early exit from block(s) %s" % sorted(set(bad))))
        # misses
        inv = l.invalid_rets()
        if name.startswith("find_") or name == "is_incident":
            tail = [x for x in inv if not l.in_loop(x[0])]
            ok = bool(tail)
            (ck.ok if ok else lambda r, w, t: ck.violate(r, w, t, "K.miss:%s/%d" % (f.pq, np_)))("K.miss", f.where, "%s returns the invalid constant / false after its loops (%d such return(s))" % (name, len(tail)))
    # canary: a lookup that ignores an argument and leaves its candidate loop early
    cf = [f for f in fb.fns.values() if f.name == "canary_k" and f.has_cfg]
    fired = False
    if cf:
        cl = L(cf[0])
        fired = any(dep_missing(cl, b, n) for b, i, n in cl.valid_rets()) and any(bad for hdr, bad in early_exits(cl))
    ck.canary("canary_k (hit independent of an argument + early exit from the candidate loop)", fired)
    ck.analysed["candidate_loops"] = nloops
    ck.floor("candidate_loops", nloops, 9)
    ck.analysed["hit_returns"] = nret
    ck.floor("hit_returns", nret, 14)

    # ------------------------------------------------------------------ per-function shapes
    def judge(ok, l, n, text, key):
        (ck.ok if ok else lambda r, w, t: ck.violate(r, w, t, "K.match:" + key))("K.match", l.f.loc(n) if n is not None else l.f.where, text)

    VH2 = ("OpenVolumeMesh::VH", "OpenVolumeMesh::VH")
    # find_halfedge(a, b): an outgoing halfedge of a whose to-vertex equals b
    l = fns[("find_halfedge", VH2)]
    for b, i, n in l.valid_rets():
        x = l.cn.s(n.get("x"))
        ep = l.endpoint_facts(b)
        o = l.org(n.get("x"))
        frm = ("from", x, "P0") in ep or (o is not None and o[0] == "outgoing_halfedges_of_vertex" and o[1] == "P0")
        judge(frm and ("to", x, "P1") in ep, l, n, "find_halfedge returns h only if h is an outgoing halfedge of the first argument and to(h) equals the second (facts: %s)" % sorted(ep), "find_halfedge")

    # find_halfedge_in_cell(a, b, c)
    l = fns[("find_halfedge_in_cell", VH2 + ("OpenVolumeMesh::CH",))]
    for b, i, n in l.valid_rets():
        x = l.cn.s(n.get("x"))
        ep = l.endpoint_facts(b)
        hs = {h for w, h, v in ep}
        if not ep:
            # a hit that is not produced by comparing endpoints at all (e.g. a delegated lookup): another formulation, not judged
            ck.cannot_judge("%s: find_halfedge_in_cell returns %s without any from/to-vertex fact - rule K.match does not know this formulation, re-audit" % (l.f.loc(n), x[:60]))
            continue
        ok = False
        for h in hs:
            fwd = {("from", h, "P0"), ("to", h, "P1")} <= ep and x == h
            bwd = {("from", h, "P1"), ("to", h, "P0")} <= ep and x in opp_he(h)
            if fwd or bwd:
                ch = l.chain_s(h, l.subexprs(b))
                ok = [c[0] for c in ch] == ["halfedges_of_halfface", "halffaces_of_cell"] and ch[1][1] == "P2"
        judge(ok, l, n, "find_halfedge_in_cell returns h for from(h)=a,to(h)=b and the opposite of h for from(h)=b,to(h)=a, h walking the halfedges of the halffaces of the given cell (returned %s under %s)" % (x[:50], sorted((w, v) for w, h, v in ep)), "find_halfedge_in_cell:%s" % ("opp" if "opposite" in x else "same"))

    # find_halfface(vertices): first three vertices -> two consecutive halfedges -> find_halfface(halfedges)
    l = fns[("find_halfface", (VEC_VH,))]
    for b, i, n in l.valid_rets():
        x = unwrap(l.f.resolve(n.get("x")))
        ok = False
        why = "not a call of find_halfface(halfedges)"
        if isinstance(x, dict) and x.get("k") == "call" and x.get("pn", "").split("::")[-1] == "find_halfface" and len(x.get("a", [])) == 1:
            arg = unwrap(x["a"][0])
            elems = None
            if isinstance(arg, dict) and arg.get("k") == "var" and arg.get("id") in l.cn.decl:
                ms = l.cn.mods.get(arg["id"], [])
                pushes = [(bb, ii, m) for k, bb, ii, m in ms if m.get("pn", "").split("::")[-1] in ("push_back", "emplace_back")]
                other = [m for k, bb, ii, m in ms if m.get("pn", "").split("::")[-1] not in ("push_back", "emplace_back", "reserve")]
                init = unwrap(l.f.resolve(l.cn.decl[arg["id"]][0].get("init")))
                if not other and len(pushes) == 2 and l.f.dominates((pushes[0][0], pushes[0][1]), (pushes[1][0], pushes[1][1])) and not (isinstance(init, dict) and init.get("a")):
                    elems = [l.cn.s(p[2]["a"][0]) for p in pushes]
                elif not ms and isinstance(init, dict) and init.get("k") in ("ctor", "initlist"):
                    a = init.get("a", [])
                    if len(a) == 1 and isinstance(unwrap(a[0]), dict) and unwrap(a[0]).get("k") == "initlist":
                        a = unwrap(a[0])["a"]
                    elems = [l.cn.s(e) for e in a]
            elif isinstance(arg, dict) and arg.get("k") in ("ctor", "initlist"):
                a = arg.get("a", [])
                if len(a) == 1 and isinstance(unwrap(a[0]), dict) and unwrap(a[0]).get("k") == "initlist":
                    a = unwrap(a[0])["a"]
                elems = [l.cn.s(e) for e in a]
            want = ["find_halfedge(P0[0], P0[1])", "find_halfedge(P0[1], P0[2])"]
            fs = {(s, pol) for s, pol, c in l.facts(b)}
            valid = all((w + ".is_valid()", True) in fs for w in want)
            ok = elems == want and valid
            why = "halfedge list %s, validity facts %s" % (elems, sorted(s for s, p in fs if p and "is_valid" in s))
        judge(ok, l, n, "find_halfface(vertices) looks up the halfedges (v0,v1) and (v1,v2), requires both valid and passes exactly these two, in this order, to find_halfface(halfedges) (%s)" % why, "find_halfface_vs")
        if ok:
            # what that formulation cannot do, against the statement ("with the requested vertices ... exactly when a brute-force
            # search finds one"): (1) vertices beyond the third are never compared and the sizes are not - find_halfface({0,1,2,9})
            # and find_halfface({0,1,2}) both answer the quad (0,1,2,3); documented in TopologyKernel.hh, known finding F57;
            # (2) find_halfedge answers the first stored halfedge v0->v1, a face built on a parallel (duplicate) edge is missed (F58)
            judge(False, l, n, "find_halfface(vertices) compares every requested vertex and the number of vertices with the candidate halfface (only _vs[0.._vs[2] reach the lookup)", "find_halfface_vs:prefix")
            judge(False, l, n, "find_halfface(vertices) tries every stored halfedge from v0 to v1 (find_halfedge answers the first one: faces on parallel edges are missed)", "find_halfface_vs:parallel")

    # find_halfface(halfedges): a halfface around hes[0] whose halfedge list contains hes[1]
    l = fns[("find_halfface", (VEC_HEH,))]
    for b, i, n in l.valid_rets():
        x = l.cn.s(n.get("x"))
        o = l.org(n.get("x"))
        R = "halfface(%s).halfedges()" % x
        want = ceq("find(%s.begin(), %s.end(), P0[1])" % (R, R), "%s.end()" % R, "!=")
        fs = {(s, pol) for s, pol, c in l.facts(b)}
        ok = o is not None and o[0] == "halffaces_of_halfedge" and o[1] == "P0[0]" and (want, True) in fs
        if not ok and any(("edge_handle(P0[1])" in s_ or "P0[1].edge_handle()" in s_) for s_, p_ in fs):
            # the second halfedge is reduced to its edge before it is looked for: a halfface that only contains the OPPOSITE
            # halfedge would be returned as well
            judge(False, l, n, "find_halfface(halfedges) looks for the second HALFEDGE in the candidate's own halfedge list - not for its edge (orientation of hes[1] dropped)", "find_halfface_hes:stripped")
            continue
        if not ok and o is not None and o[0] == "halffaces_of_halfedge" and any("P0[1]" in s for s, p in fs) and not any("find(" in s for s, p in fs):
            raise AnalysisBroken("%s: find_halfface(halfedges) tests the second halfedge in a form rule K.match does not know - re-audit" % l.f.where)
        judge(ok, l, n, "find_halfface(halfedges) returns a halfface incident to the first halfedge whose own halfedge list contains the second (origin %s)" % (o,), "find_halfface_hes")

    # find_halfface_in_cell(vertices, cell)
    l = fns[("find_halfface_in_cell", (VEC_VH, "OpenVolumeMesh::CH"))]
    for b, i, n in l.valid_rets():
        x = l.cn.s(n.get("x"))
        ep = l.endpoint_facts(b)
        hs = {h for w, h, v in ep}
        if not any(v.startswith("P0[") for w, h, v in ep):
            ck.cannot_judge("%s: find_halfface_in_cell returns %s without comparing from/to-vertices with the given vertices - rule K.match does not know this formulation, re-audit" % (l.f.loc(n), x[:60]))
            continue
        ok = False
        sub = l.subexprs(b) + [y for y in walk(l.f.resolve(n.get("x"))) if isinstance(y, dict)]
        for h in hs:
            ch = l.chain_s(h, sub)
            if [c[0] for c in ch] != ["halfedges_of_halfface", "halffaces_of_cell"] or ch[1][1] != "P1":
                continue
            F = ch[0][1]
            if {("from", h, "P0[0]"), ("to", h, "P0[1]")} <= ep and x == F and ("to", "next_halfedge_in_halfface(%s, %s)" % (h, F), "P0[2]") in ep:
                ok = True
            adj = "adjacent_halfface_in_cell(%s, %s)" % (F, h)
            if {("from", h, "P0[1]"), ("to", h, "P0[0]")} <= ep and x == adj and any(("to", "next_halfedge_in_halfface(%s, %s)" % (oh_, adj), "P0[2]") in ep for oh_ in opp_he(h)):
                ok = True
        if not ok and any(v == "P0[2]" for w, h, v in ep) and not any(("next_halfedge_in_halfface(" in h) for w, h, v in ep if v == "P0[2]"):
            ck.cannot_judge("%s: find_halfface_in_cell compares the third vertex without next_halfedge_in_halfface - rule K.match does not know this formulation, re-audit" % l.f.loc(n))
            continue
        judge(ok, l, n, "find_halfface_in_cell returns the halfface F of the cell holding h=(v0,v1) with next(h,F) ending in v2, or - for h=(v1,v0) - the adjacent halfface A in the cell with next(opposite(h),A) ending in v2 (returned %s)" % x[:70], "find_halfface_in_cell:%s" % ("adj" if "adjacent" in x else "same"))

    # find_halfface_extensive(vertices)
    l = fns[("find_halfface_extensive", (VEC_VH,))]
    extensive(ck, l, judge)

    # get_halfface_vertices(hf)
    l = fns[("get_halfface_vertices", ("OpenVolumeMesh::HFH",))]
    for b, i, n in l.valid_rets():
        ok, why = collected(l, n, "vertices_of_halfface", "P0")
        judge(ok, l, n, "get_halfface_vertices(hf) returns the vertices delivered by one lap of the halfface-vertex circulator of hf, in that order (%s)" % why, "ghv1")

    # get_halfface_vertices(hf, v)
    l = fns[("get_halfface_vertices", ("OpenVolumeMesh::HFH", "OpenVolumeMesh::VH"))]
    rotate(ck, l, judge)

    # get_halfface_vertices(hf, he)
    l = fns[("get_halfface_vertices", ("OpenVolumeMesh::HFH", "OpenVolumeMesh::HEH"))]
    for b, i, n in l.valid_rets():
        x = l.cn.s(n.get("x"))
        if x in ("{}", "vector()", "std::vector<VH>()", "vector({})") or re.fullmatch(r"(std::)?vector(<[^>]*>)?\(\)|\{\}", x):
            continue  # the miss answer
        if x.startswith("get_halfface_vertices(P0, "):
            # the start vertex alone does not put the halfedge on the halfface (its opposite, or a halfedge of a neighbouring
            # face, starts on the halfface too): the delegation happens under a membership fact (F71)
            fs_ = [(s_, p_) for s_, p_, c_ in l.cn.facts(b)]
            member = any(p_ is True and (re.fullmatch(r"v\d+", s_) or ("P1" in s_ and "halfedges()" in s_)) for s_, p_ in fs_) or any(p_ is False and s_.startswith("!") and re.fullmatch(r"!v\d+", s_) for s_, p_ in fs_)
            judge(member, l, n, "get_halfface_vertices(hf, he) delegates to the start-vertex form only under the fact that he is one of the halfedges of hf (facts %s)" % (fs_[:2] or "none"), "ghv3:member")
        if not x.startswith("get_halfface_vertices(P0, "):
            ck.cannot_judge("%s: get_halfface_vertices(hf, he) no longer delegates to the (hf, start vertex) form: rule K.match does not know this formulation - re-audit" % l.f.loc(n))
            continue
        judge(x in ("get_halfface_vertices(P0, from_vertex_handle(P1))", "get_halfface_vertices(P0, halfedge(P1).from_vertex())"), l, n, "get_halfface_vertices(hf, he) starts at the from-vertex of he (returned %s)" % x, "ghv3")

    # is_incident(face, edge)
    l = fns[("is_incident", ("OpenVolumeMesh::FH", "OpenVolumeMesh::EH"))]
    for b, i, n in l.valid_rets():
        ok = False
        for s, pol, c in l.facts(b):
            e = eq_sides(c, pol)
            if not e:
                continue
            for a, o in (e, e[::-1]):
                a = unwrap(l.f.resolve(a))
                if l.cn.s(o) != "P1" or not isinstance(a, dict) or a.get("k") != "call":
                    continue
                nm = a.get("pn", a.get("n", "")).split("::")[-1]
                h = a["a"][0] if nm == "edge_handle" and a.get("a") else (a.get("r") if nm == "edge_handle" else None)
                if h is None:
                    continue
                oh = l.org(h)
                if oh and oh[0] == "halfedges_of_face" and oh[1] == "P0":
                    ok = True
        judge(ok, l, n, "is_incident(f, e) returns true only for a halfedge of f whose edge is e", "is_incident")

    # n_vertices_in_cell
    l = fns[("n_vertices_in_cell", ("OpenVolumeMesh::CH",))]
    for b, i, n in l.valid_rets():
        x = unwrap(l.f.resolve(n.get("x")))
        ok, why = False, "not <set>.size()"
        if isinstance(x, dict) and x.get("k") == "call" and x.get("pn", "").split("::")[-1] == "size":
            r = unwrap(x.get("r"))
            if isinstance(r, dict) and r.get("k") == "var" and r.get("id") in l.cn.decl and l.cn.decl[r["id"]][0]["t"].startswith("std::set<OpenVolumeMesh::VH"):
                ins = [(bb, m) for k, bb, ii, m in l.cn.mods.get(r["id"], []) if m.get("pn", "").split("::")[-1] in ("insert", "emplace")]
                why = "%d insert site(s)" % len(ins)
                for bb, m in ins:
                    if atoms_at(l.f, bb):
                        why += "; insert under the extra condition %s (every halfedge of the cell has to contribute)" % fmt_atoms(atoms_at(l.f, bb))
                        continue
                    a = unwrap(l.f.resolve(m["a"][0])) if m.get("a") else None
                    ep = l.endpoint(a) if a is not None else None
                    if not ep:
                        continue
                    harg = a["a"][0] if a.get("a") else None
                    ch = l.chain(harg) if harg is not None else []
                    if [c[0] for c in ch] == ["halfedges_of_halfface", "halffaces_of_cell"] and ch[1][1] == "P0":
                        ok = True
        judge(ok, l, n, "n_vertices_in_cell counts a std::set of the from/to vertices of all halfedges of all halffaces of the cell (%s)" % why, "n_vertices_in_cell")


def dep_missing(l, b, n):
    """names of the parameters the hit returned at (b, n) does not depend on"""
    d = l.cn.deps(n.get("x"))
    for c, pol, e in l.f.facts(b):
        d |= l.cn.deps(c)
    return [p["n"] for k, p in enumerate(l.f.d["params"]) if k not in d]


def early_exits(l):
    """[(loop header, [blocks leaving the loop other than through its bound or with a hit])] for every candidate loop.
    An edge b->s out of the loop body (b not the header) leaves 'with a hit' when every path from s to the function
    exit passes a hit return; a loop is a candidate loop when it has such an edge."""
    f = l.f
    hit_blocks = {b for b, i, n in l.valid_rets()}

    def reaches_exit_without_hit(s):
        seen, work = set(), [s]
        while work:
            x = work.pop()
            if x in seen or x in hit_blocks:
                continue
            seen.add(x)
            if x == f.exit:
                return True
            work += [y for y in f.succ(x) if y is not None]
        return False

    out = []
    for hdr, body, backs in l.loops:
        hit, bad = [], []
        for bb in body:
            if bb == hdr:
                continue
            for s in f.succ(bb):
                if s is None or s in body:
                    continue
                (bad if reaches_exit_without_hit(s) else hit).append(bb)
        if hit:
            out.append((hdr, bad))
    return out


def collected(l, n, rel, owner):
    """the returned local vector receives exactly the elements of one walk over relation `rel` of `owner`"""
    x = unwrap(l.f.resolve(n.get("x")))
    if not (isinstance(x, dict) and x.get("k") == "var" and x.get("id") in l.cn.decl):
        return False, "not a local vector"
    ms = l.cn.mods.get(x["id"], [])
    pushes = [m for k, bb, ii, m in ms if m.get("pn", "").split("::")[-1] in ("push_back", "emplace_back")]
    pblocks = [bb for k, bb, ii, m in ms if m.get("pn", "").split("::")[-1] in ("push_back", "emplace_back")]
    other = [m for k, bb, ii, m in ms if m.get("pn", "").split("::")[-1] not in ("push_back", "emplace_back", "reserve")]
    if other or len(pushes) != 1:
        return False, "%d push site(s), %d other modification(s)" % (len(pushes), len(other))
    if atoms_at(l.f, pblocks[0]):
        return False, "push under the extra condition %s" % fmt_atoms(atoms_at(l.f, pblocks[0]))
    o = l.org(pushes[0]["a"][0])
    laps = o[2][0] if o and o[2] else "1"
    return bool(o and o[0] == rel and o[1] == owner and laps == "1"), "pushes %s" % (o,)


def extensive(ck, l, judge):
    f, cn = l.f, l.cn
    HE0 = "find_halfedge(P0[0], P0[1])"
    for b, i, n in l.valid_rets():
        x = cn.s(n.get("x"))
        o = l.org(n.get("x"))
        R = "halfface(%s).halfedges()" % x
        fs = {(s, pol) for s, pol, c in l.facts(b)}
        size_ok = (ceq("%s.size()" % R, "P0.size()", "!="), False) in fs or (ceq("%s.size()" % R, "P0.size()", "=="), True) in fs
        judge(o is not None and o[0] == "halffaces_of_halfedge" and o[1] == HE0 and (HE0 + ".is_valid()", True) in fs, l, n, "find_halfface_extensive walks the halffaces around the (valid) halfedge (v0,v1) (origin %s)" % (o,), "ext:origin")
        judge(size_ok, l, n, "find_halfface_extensive accepts a halfface only if it has as many halfedges as vertices were given", "ext:size")
        # the flag
        flags = [(s, pol, c) for s, pol, c in l.facts(b) if re.fullmatch(r"v\d+", s) and pol is True]
        if len(flags) != 1:
            raise AnalysisBroken("%s: find_halfface_extensive: the all-vertices-found flag idiom is not recognised (facts %s) - re-audit rule K.match" % (f.where, sorted(fs)))
        flag = unwrap(f.resolve(flags[0][2]))
        vid = flag.get("id")
        init = cn.s(cn.decl[vid][0].get("init")) if vid in cn.decl else None
        sites = cn.mods.get(vid, [])
        Rm = R.replace("(", r"\(").replace(")", r"\)").replace("[", r"\[").replace("]", r"\]").replace("*", r"\*").replace(".", r"\.")
        pat_v = r"P0\[(it\d+)\(0\)\]"
        pat_h1 = r"halfedge\(%s\[\(\((it\d+)\(0\) \+ (v\d+)\) %% %s\.size\(\)\)\]\)\.from_vertex\(\)" % (Rm, Rm)
        pat_h2 = r"from_vertex_handle\(%s\[\(\((it\d+)\(0\) \+ (v\d+)\) %% %s\.size\(\)\)\]\)" % (Rm, Rm)
        good, offv, ctr = 0, None, None
        for k, bb, ii, m in sites:
            a = None
            if m.get("k") == "asg":
                a = cn.s(m["r"])
            if a != "false":
                good = -99
                continue
            for s, pol, c in l.facts(bb):
                mm = None
                for ph in (pat_h1, pat_h2):
                    mm = mm or eq_match(s, "!=", ph, pat_v, pol=pol, want="!=")
                if mm and mm[0].group(1) == mm[1].group(1):
                    good += 1
                    ctr, offv = mm[0].group(1), mm[0].group(2)
        judge(init == "true" and good == len(sites) >= 1, l, n, "the hit flag starts true and is cleared exactly where from(hes[(i+offset) %% size]) differs from the i-th given vertex (%d of %d clearing site(s) recognised)" % (max(good, 0), len(sites)), "ext:flag")
        if ctr is None:
            continue
        # the comparison loop covers every index
        hdrs = [s for hdr, body, backs in l.loops for s in [cn.s((f.term(hdr) or {}).get("cond"))] if s.startswith("(%s(0) < " % ctr)]
        judge(len(hdrs) == 1 and hdrs[0] in ("(%s(0) < %s.size())" % (ctr, R), "(%s(0) < P0.size())" % ctr), l, n, "the comparison runs for every i in [0, size) (loop condition %s)" % hdrs, "ext:range")
        # the offset is the position of (v0,v1) in the halfface
        osites = [(k, bb, ii, m) for vid2, ms in cn.mods.items() if cn._name.get(vid2) == offv for k, bb, ii, m in ms]
        ok = bool(osites)
        for k, bb, ii, m in osites:
            s_ok = False
            rhs = cn.s(m["r"]) if m.get("k") == "asg" else None
            for s, pol, c in l.facts(bb):
                mm = eq_match(s, "==", r"%s\[(it\d+)\(0\)\]" % Rm, re.escape(HE0), pol=pol, want="==")
                if mm and rhs in ("%s(0)" % mm[0].group(1), "(int)%s(0)" % mm[0].group(1)):
                    s_ok = True
            ok = ok and s_ok
        judge(ok, l, n, "the offset is set to the position at which the halfface stores the halfedge (v0,v1) (%d site(s))" % len(osites), "ext:offset")


def rotate(ck, l, judge):
    """get_halfface_vertices(hf, v): advance a >= 2 lap circulator to v (at most n steps), then collect n vertices"""
    f, cn = l.f, l.cn
    N = "valence(P0.face_handle())"
    for b, i, n in l.valid_rets():
        x = unwrap(f.resolve(n.get("x")))
        if not (isinstance(x, dict) and x.get("k") == "var" and x.get("id") in cn.decl):
            raise AnalysisBroken("%s: get_halfface_vertices(hf, v) does not return a local vector - re-audit rule K.match" % f.where)
        ms = cn.mods.get(x["id"], [])
        pushes = [(bb, ii, m) for k, bb, ii, m in ms if m.get("pn", "").split("::")[-1] in ("push_back", "emplace_back")]
        other = [m for k, bb, ii, m in ms if m.get("pn", "").split("::")[-1] not in ("push_back", "emplace_back", "reserve")]
        ok_push = len(pushes) == 1 and not other
        if ok_push:
            # the collection happens only when the requested vertex was found (F56): the push is guarded by a flag that is
            # set under the equality fact, or lies itself under that fact; a miss returns the empty list
            pfacts = [(s_, p_) for s_, p_, c_ in cn.facts(pushes[0][0]) if not re.fullmatch(r"\(it\d+\(0\) < .*\)", s_)]
            found_ok = False
            for s_, p_ in pfacts:
                if p_ is True and re.fullmatch(r"v\d+", s_):
                    vid = [v_ for v_, n_ in cn._name.items() if n_ == s_]
                    sets_ = [(bb, m) for k_, bb, ii, m in cn.mods.get(vid[0], [])] if vid else []
                    if sets_ and all(any(p2 is True and "P1" in s2 and "*it" in s2 and "==" in s2 for s2, p2, c2 in cn.facts(bb)) for bb, m in sets_):
                        found_ok = True
                if p_ is True and "P1" in s_ and "*it" in s_ and "==" in s_:
                    found_ok = True
            judge(found_ok, l, n, "get_halfface_vertices(hf, v) collects the vertices only under the fact that v was found on hf - a miss returns the empty list (guard facts at the push: %s)" % (pfacts[:2] or "none"), "ghv2:miss")
        it = None
        if ok_push:
            a = unwrap(f.resolve(pushes[0][2]["a"][0]))
            tgt = unwrap(a.get("r")) if a.get("k") == "call" and a.get("op") == "*" else None
            if isinstance(tgt, dict) and tgt.get("k") == "var" and cn.kind.get(tgt.get("id")) == "iter":
                it = tgt["id"]
        if it is None:
            judge(False, l, n, "get_halfface_vertices(hf, v) pushes the current vertex of one circulator (push sites %d)" % len(pushes), "ghv2:push")
            continue
        init = unwrap(f.resolve(cn.decl[it][0]["init"]))
        nm = init.get("pn", init.get("n", "")).split("::")[-1] if isinstance(init, dict) else ""
        args = [cn.s(z) for z in init.get("a", [])] if isinstance(init, dict) else []
        laps = int(args[1]) if len(args) > 1 and args[1].isdigit() else 1
        judge(nm in ("hfv_iter", "halfface_vertices") and args[:1] == ["P0"] and laps >= 2, l, n, "the circulator walks the vertices of hf with at least 2 laps (it is advanced up to 2n-1 times): %s(%s)" % (nm, ", ".join(args)), "ghv2:laps")
        steps = cn.mods.get(it, [])
        pb = pushes[0][0]
        collect = [lp for lp in l.loops if pb in lp[1]]
        if not collect:
            judge(False, l, n, "the push is not inside a loop", "ghv2:collect")
            continue
        chdr, cbody, _ = min(collect, key=lambda lp: len(lp[1]))
        ccond = cn.s((f.term(chdr) or {}).get("cond"))
        in_collect = [s for s in steps if s[1] in cbody]
        judge(bool(re.fullmatch(r"\(it\d+\(0\) < %s\)" % re.escape(N), ccond)) and len(in_collect) == 1 and in_collect[0][1] == pb, l, n, "the collecting loop runs n = valence(face) times and advances the circulator once per pushed vertex (condition %s, %d step site(s))" % (ccond, len(in_collect)), "ghv2:collect")
        seek = [s for s in steps if s[1] not in cbody]
        ok = len(seek) == 1
        why = "%d seek step site(s)" % len(seek)
        if ok:
            sb = seek[0][1]
            lp = [q for q in l.loops if sb in q[1]]
            ok = bool(lp)
            if ok:
                shdr, sbody, _ = min(lp, key=lambda q: len(q[1]))
                scond = cn.s((f.term(shdr) or {}).get("cond"))
                stop = False
                for s, pol, c in l.facts(sb):
                    e = eq_sides(c, not pol) if isinstance(pol, bool) else None  # fact "not equal" at the step
                    if e:
                        ss = {cn.s(e[0]), cn.s(e[1])}
                        if "P1" in ss and any(z.startswith("*it") for z in ss):
                            stop = True
                ok = stop and bool(re.fullmatch(r"\(it\d+\(0\) < %s\)" % re.escape(N), scond)) and all(f.dominates((sb, 0), (cb, 0)) or True for cb in [pb])
                why = "seek loop condition %s, stops at the requested vertex: %s" % (scond, stop)
        judge(ok, l, n, "before collecting, the circulator is advanced (at most n times) exactly while its vertex differs from the requested start vertex (%s)" % why, "ghv2:seek")
