"""Rule family L - lock-step of the parallel per-entity arrays of TopologyKernel.

Groups are derived from the member types (HandleIndexing<Entity::K, vector<T>>); the
property notifications of ResourceManager are resolved by name from a small table and
verified to exist.  For every mutator the shape effects (grow / erase1 / swap / clear /
deferred flag) on one member of a kind must be matched by the same effect on every other
mandatory member of that kind under the same mode atoms, and on the optional caches under
the same atoms plus their has_k guard."""
from collections import defaultdict

from .extract import AnalysisBroken
from .facts import as_assign, estr, unwrap
from .rule_g import TK, CacheModel, iter_sites

RM = "OpenVolumeMesh::ResourceManager"
HALF = {"HalfEdge": "Edge", "HalfFace": "Face"}
KINDS = ("Vertex", "Edge", "Face", "Cell")

# property notifications (ResourceManager); resolved and verified on every run
NOTIFY = {
    "resize_vprops": ("grow", "Vertex"), "resize_eprops": ("grow", "Edge"), "resize_fprops": ("grow", "Face"), "resize_cprops": ("grow", "Cell"),
    "vertex_deleted": ("erase", "Vertex"), "edge_deleted": ("erase", "Edge"), "face_deleted": ("erase", "Face"), "cell_deleted": ("erase", "Cell"),
    "swap_property_elements": ("swap", None),  # kind from the handle type
    "clear_all_props": ("clearprops", None),
}
HANDLE_KIND = {"VH": "Vertex", "EH": "Edge", "HEH": "HalfEdge", "FH": "Face", "HFH": "HalfFace", "CH": "Cell"}
LOOP_TERMS = {"ForStmt", "WhileStmt", "CXXForRangeStmt", "DoStmt"}


def entity_of(t):
    if "HandleIndexing<OpenVolumeMesh::Entity::" in t:
        return t.split("HandleIndexing<OpenVolumeMesh::Entity::")[1].split(",")[0]
    return None


def handle_kind(t):
    t = t.replace("const ", "").replace("&", "").strip()
    t = t.replace("OpenVolumeMesh::", "")
    if t in HANDLE_KIND:
        return HANDLE_KIND[t]
    if t.startswith("HandleT<Entity::"):
        return t.split("Entity::")[1].rstrip(">")
    return None


class KindModel:
    def __init__(self, fb, cm):
        self.fb, self.cm = fb, cm
        rec = fb.records[TK]
        self.defs, self.flags, self.caches = {}, {}, {}
        self.member_role = {}  # field -> (role, kind, half?)
        for f in rec["fields"]:
            ent = entity_of(f["t"])
            if not ent:
                continue
            kind = HALF.get(ent, ent)
            if f["n"] in cm.kinds:
                self.caches[f["n"]] = (kind_of_cache(ent), ent in HALF)
                self.member_role[f["n"]] = ("cache", kind_of_cache(ent), ent in HALF)
            elif "std::vector<bool>" in f["t"]:
                self.flags[kind] = f["n"]
                self.member_role[f["n"]] = ("flag", kind, False)
            else:
                self.defs[kind] = f["n"]
                self.member_role[f["n"]] = ("def", kind, False)
        # vertex count: the size_t member returned by n_vertices()
        self.vcount = None
        for f in fb.by_cls.get(TK, []):
            if f.name == "n_vertices" and f.has_cfg:
                for b, i, n in f.tops():
                    if n.get("k") == "ret":
                        x = unwrap(n["x"])
                        if x.get("k") == "mem":
                            self.vcount = x["f"]
        if not self.vcount:
            raise AnalysisBroken("L: vertex counter member not identified from n_vertices()")
        self.member_role[self.vcount] = ("def", "Vertex", False)
        for k in ("Edge", "Face", "Cell"):
            if k not in self.defs:
                raise AnalysisBroken("L: definition array for %s not found" % k)
        for k in KINDS:
            if k not in self.flags:
                raise AnalysisBroken("L: deleted-flag array for %s not found" % k)
        # deleted counters: integral members incremented next to `flag[h] = true`
        self.delcount = {}
        for f in fb.by_cls.get(TK, []):
            if not f.has_cfg:
                continue
            flagw = {}
            incs = {}
            for b, i, n in f.tops():
                asn = as_assign(n)
                if asn:
                    l = unwrap(asn[0])
                    if l.get("k") == "idx" and unwrap(l["b"]).get("f") in self.member_role and self.member_role[unwrap(l["b"])["f"]][0] == "flag":
                        r = unwrap(asn[1])
                        if r.get("k") == "lit" and r.get("v") is True:
                            flagw[b] = self.member_role[unwrap(l["b"])["f"]][1]
                if n.get("k") == "un" and n["op"] in ("pre++", "post++"):
                    x = unwrap(n["x"])
                    if x.get("k") == "mem" and x.get("o") == TK:
                        incs[b] = x["f"]
            for b, kind in flagw.items():
                if b in incs:
                    self.delcount.setdefault(kind, incs[b])
        if len(self.delcount) != 4:
            raise AnalysisBroken("L: deleted counters identified for %s only" % sorted(self.delcount))
        for k, c in self.delcount.items():
            self.member_role[c] = ("delcount", k, False)
        # verify notifications resolve
        names = {f.name for f in fb.by_cls.get(RM, [])}
        for r in fb.records[RM]["methods"]:
            names.add(r["n"])
        for n in NOTIFY:
            if n not in names:
                raise AnalysisBroken("L: ResourceManager::%s not found" % n)


def kind_of_cache(ent):
    # the cache indexed by entity X lock-steps with the arrays of X (or of X's full kind)
    return HALF.get(ent, ent)


def atoms_at(f, b):
    """mode/data atoms guarding block b; loop-header conditions are dropped"""
    out = set()
    for c, pol, (B, k) in f.facts(b):
        t = f.term(B)
        if t and t["c"] in LOOP_TERMS:
            continue
        if not isinstance(pol, bool):
            out.add((estr(c), str(pol)))
            continue
        out.add((norm_atom(c), pol))
    return frozenset(out)


def norm_atom(c):
    c = unwrap(c)
    if isinstance(c, dict) and c.get("k") == "call":
        name = c.get("pn", "").split("::")[-1]
        if not c.get("a"):
            return name + "()"
    if isinstance(c, dict) and c.get("k") == "mem":
        return c["f"]
    return estr(c)


def effects(fb, km, f):
    """shape effects in f: list of dict(cls, member/notify, kind, pos, node, atoms, arg)"""
    out = []
    for n, parents, pos in iter_sites(f):
        k = n.get("k")
        if pos[0] not in f.reach():
            continue
        if k == "call":
            name = n.get("pn", "").split("::")[-1]
            r = unwrap(n.get("r")) if n.get("r") is not None else None
            if isinstance(r, dict) and r.get("k") == "mem" and r.get("o") == TK and r.get("f") in km.member_role:
                m = r["f"]
                role, kind, half = km.member_role[m]
                cls = {"push_back": "grow", "emplace_back": "grow", "resize": "grow", "erase": "erase", "clear": "clear"}.get(name)
                if cls:
                    e = dict(cls=cls, member=m, role=role, kind=kind, pos=pos, node=n, op=name, args=n.get("a", []))
                    if cls == "grow" and name == "resize":
                        a0 = unwrap(n["a"][0]) if n.get("a") else None
                        if isinstance(a0, dict) and a0.get("k") == "lit" and a0.get("v") == 0:
                            e["cls"] = "clear"
                    out.append(e)
            elif name in ("swap", "swap_bool") and len(n.get("a", [])) == 2 and (n.get("pn", "").startswith("std::") or "detail::swap_bool" in n.get("pn", "")):
                a, b = unwrap(n["a"][0]), unwrap(n["a"][1])
                if a.get("k") == "idx" and b.get("k") == "idx":
                    ma, mb = unwrap(a["b"]), unwrap(b["b"])
                    if ma.get("k") == "mem" and mb.get("k") == "mem" and ma.get("f") == mb.get("f") and ma.get("o") == TK and ma["f"] in km.member_role:
                        role, kind, half = km.member_role[ma["f"]]
                        out.append(dict(cls="swap", member=ma["f"], role=role, kind=kind, pos=pos, node=n, op=name, args=[a["i"], b["i"]]))
            elif name in NOTIFY and (n.get("cc") == RM or (n.get("pn", "").startswith(RM + "::"))):
                cls, kind = NOTIFY[name]
                if name == "swap_property_elements":
                    hk = handle_kind(n.get("a") and fb.fns.get(n["u"]) and fb.fns[n["u"]].d["params"][0]["t"] or "")
                    if hk is None and n.get("a"):
                        a0 = unwrap(n["a"][0])
                        hk = handle_kind(a0.get("t", "")) if isinstance(a0, dict) else None
                    kind = hk
                e = dict(cls=cls, member="props:" + name, role="props", kind=HALF.get(kind, kind) if kind else None, pos=pos, node=n, op=name, args=n.get("a", []), half=kind in HALF if kind else False)
                if cls == "grow":
                    a0 = unwrap(n["a"][0]) if n.get("a") else None
                    if isinstance(a0, dict) and a0.get("k") == "lit" and a0.get("v") == 0:
                        e["cls"] = "clear"
                out.append(e)
        asn = as_assign(n) if k in ("asg", "call") else None
        if asn:
            l = unwrap(asn[0])
            n = dict(n)
            n["l"], n["r"], n["op"] = asn
            if l.get("k") == "idx":
                mb = unwrap(l["b"])
                if mb.get("k") == "mem" and mb.get("o") == TK and mb.get("f") in km.member_role and km.member_role[mb["f"]][0] == "flag":
                    r = unwrap(n["r"])
                    if r.get("k") == "lit" and isinstance(r.get("v"), bool):
                        out.append(dict(cls="flag=%s" % ("true" if r["v"] else "false"), member=mb["f"], role="flag", kind=km.member_role[mb["f"]][1], pos=pos, node=n, op="=", args=[l["i"]]))
            elif l.get("k") == "mem" and l.get("o") == TK and l.get("f") in km.member_role and km.member_role[l["f"]][0] in ("delcount", "def"):
                role, kind, _ = km.member_role[l["f"]]
                r = unwrap(n["r"])
                zero = r.get("k") == "lit" and r.get("v") == 0
                if role == "delcount":
                    out.append(dict(cls="delcount=0" if (zero and n["op"] == "=") else "delcount?", member=l["f"], role=role, kind=kind, pos=pos, node=n, op=n["op"], args=[n["r"]]))
                else:  # vertex counter
                    cls = "clear" if (zero and n["op"] == "=") else "grow" if n["op"] == "+=" else "erase" if n["op"] == "-=" else "set"
                    out.append(dict(cls=cls, member=l["f"], role="def", kind="Vertex", pos=pos, node=n, op=n["op"], args=[n["r"]]))
        elif k == "un" and n["op"] in ("pre++", "post++", "pre--", "post--"):
            x = unwrap(n["x"])
            if x.get("k") == "mem" and x.get("o") == TK and x.get("f") in km.member_role:
                role, kind, _ = km.member_role[x["f"]]
                inc = "++" in n["op"]
                if role == "delcount":
                    out.append(dict(cls="delcount++" if inc else "delcount--", member=x["f"], role=role, kind=kind, pos=pos, node=n, op=n["op"], args=[]))
                elif role == "def":
                    out.append(dict(cls="grow" if inc else "erase", member=x["f"], role="def", kind="Vertex", pos=pos, node=n, op=n["op"], args=[]))
    for e in out:
        e["atoms"] = atoms_at(f, e["pos"][0])
        e["fn"] = f
    return out


def fmt_atoms(a):
    return "{" + ", ".join(sorted(("" if p is True else "!" if p is False else str(p) + ":") + c for c, p in a)) + "}"


def check_lockstep(ck, fb, km, cm, f, effs, classes, rule_id, props_required=True, report_cache=True, report_mandatory=True):
    """for each kind and effect class present in f: every mandatory member matches under equal atoms,
    every optional cache under atoms + has_k"""
    n_checked = 0
    for kind in KINDS:
        for cls in classes:
            sites = [e for e in effs if e["kind"] == kind and e["cls"] == cls and e["role"] in ("def", "flag", "props", "cache")]
            mand = [e for e in sites if e["role"] in ("def", "flag") or (e["role"] == "props" and props_required)]
            if not [e for e in sites if e["role"] in ("def", "flag")]:
                continue
            by_member = defaultdict(list)
            for e in sites:
                by_member[e["member"] if e["role"] != "props" else "props"].append(e)
            required = [km.vcount if kind == "Vertex" else km.defs[kind], km.flags[kind]] + (["props"] if props_required else [])
            # reference atom sets: those of the definition array's sites
            ref_member = required[0]
            refs = by_member.get(ref_member, [])
            if not refs:
                refs = by_member.get(km.flags[kind], [])
            for ref in refs:
                for m in required:
                    if m == ref["member"] or (m == "props" and ref["role"] == "props"):
                        continue
                    n_checked += 1
                    match = [e for e in by_member.get(m, []) if e["atoms"] == ref["atoms"]]
                    where = f.loc(ref["node"])
                    what = "%s: %s of %s %s under %s is matched by the same effect on %s" % (f.pq.split("::")[-1], cls, kind, ref["member"], fmt_atoms(ref["atoms"]), m)
                    if match and report_mandatory:
                        ck.ok(rule_id, where, what)
                    elif report_mandatory:
                        have = [fmt_atoms(e["atoms"]) for e in by_member.get(m, [])]
                        ck.violate(rule_id, where, "%s: %s of %s %s under %s has no matching %s on %s (found: %s)" % (f.pq.split("::")[-1], cls, kind, ref["member"], fmt_atoms(ref["atoms"]), cls, m, have or "none"),
                                   "%s:%s:%s:%s:%s" % (rule_id, f.pq, cls, kind, m))
                # optional caches of this kind
                if report_cache:
                    for cache, (ckind, half) in km.caches.items():
                        if ckind != kind:
                            continue
                        flag = cm.kinds[cache]["flag"]
                        hasfn = "has_" + cm.kinds[cache]["enable_name"][len("enable_"):] + "()"
                        n_checked += 1
                        ok = False
                        for e in by_member.get(cache, []):
                            extra = e["atoms"] - ref["atoms"]
                            missing = ref["atoms"] - e["atoms"]
                            if not missing and all(p is True and c in (hasfn, flag) for c, p in extra):
                                ok = True
                        where = f.loc(ref["node"])
                        what = "%s: %s of %s %s under %s is matched on cache %s (under its guard)" % (f.pq.split("::")[-1], cls, kind, ref["member"], fmt_atoms(ref["atoms"]), cache)
                        if ok:
                            ck.ok(rule_id, where, what)
                        else:
                            have = [fmt_atoms(e["atoms"]) for e in by_member.get(cache, [])]
                            ck.violate(rule_id, where, "%s: %s of %s %s under %s has no matching %s on cache %s under the same atoms + %s (found: %s)" % (f.pq.split("::")[-1], cls, kind, ref["member"], fmt_atoms(ref["atoms"]), cls, cache, hasfn, have or "none"),
                                       "%s:%s:%s:%s:%s" % (rule_id, f.pq, cls, kind, cache))
    return n_checked
