"""C07 - readers are memory-safe and terminate on any bytes (structural clauses)"""
from . import readers


def run(ck, fb, fbd):
    readers.Budget(ck, fb).run()
