"""C07 - readers are memory-safe and terminate on any bytes (structural clauses)"""
from . import readers


def run(ck, fb, fbd):
    readers.Budget(ck, fb).run()
    readers.range_rules(ck, fb)
    readers.result_rules(ck, fb)
    readers.edge_dup_rule(ck, fb)
    readers.encoding_rule(ck, fb)
    from .c11 import nonempty_entry
    nonempty_entry(ck, fb)
    readers.empty_sequence_rules(ck, fb)
    readers.loop_rules(ck, fb)
    readers.exception_rules(ck, fb)
    readers.extract_init_rule(ck, fb)
    readers.counter_width_rule(ck, fb)
    readers.memcpy_null_rule(ck, fb)
    readers.ovmb_framing_rules(ck, fb)  # the handle offset bound is what makes R.handle's range test mean something
    # a cell accepted from a file stores only handles it was given: the hexahedral re-ordering must not leave an invalid slot (shared with C16)
    from .c15_c16 import reorder_total_rule
    reorder_total_rule(ck, fb)
