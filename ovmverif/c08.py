"""C08 - opposite half-entities are mirror images.

(1) handle algebra for EVERY index: the return expressions of the conversion functions are evaluated in the
    sub-index decomposition domain x = 2q + b (q symbolic, b in {0,1}); values are linear forms a*q + c.
(2) static_assert witnesses over the constexpr handle members (boundary indices and two ranges).
(3) mirror construction: shape rules over opposite_halfedge/opposite_halfface/halfedge()/halfface(),
    the halfface vertex/halfedge circulators, next/prev_halfedge_in_halfface and add_face(vertices)."""
import re

from .extract import AnalysisBroken
from .facts import as_assign, estr, need_names, unwrap, walk
from .readers import cmp_parts, strip_casts
from .rule_g import single_assignment_init
from .witness import compile_witness

TK = "OpenVolumeMesh::TopologyKernel"


class Unsupported(Exception):
    pass


class Lin:
    """a*q + c  (q >= 0 symbolic)"""

    def __init__(self, a, c):
        self.a, self.c = a, c

    def __eq__(self, o):
        return isinstance(o, Lin) and (self.a, self.c) == (o.a, o.c)

    def __repr__(self):
        return "%d*q+%d" % (self.a, self.c) if self.a else str(self.c)


def const(v):
    return Lin(0, int(v))


class Evaluator:
    def __init__(self, fb):
        self.fb = fb
        self.depth = 0

    def call(self, fn, this_val, args):
        """value returned by fn (single return expression) with `this` and parameters bound"""
        if self.depth > 12:
            raise Unsupported("recursion")
        if not fn.has_cfg:
            raise Unsupported("no body: " + fn.pq)
        rets = [x for b, i, x in fn.tops() if x.get("k") == "ret" and b in fn.reach()]
        if len(rets) != 1:
            raise Unsupported("%s has %d return statements" % (fn.pq, len(rets)))
        env = {p["id"]: a for p, a in zip(fn.d["params"], args)}
        self.depth += 1
        try:
            return self.ev(fn, rets[0]["x"], env, this_val)
        finally:
            self.depth -= 1

    def ev(self, fn, e, env, this_val):
        e = unwrap(e)
        if not isinstance(e, dict):
            raise Unsupported("non-expression")
        k = e.get("k")
        if k == "lit":
            if isinstance(e["v"], bool):
                return const(1 if e["v"] else 0)
            return const(e["v"])
        if k == "var":
            if e["id"] in env:
                return env[e["id"]]
            raise Unsupported("free variable " + e["n"])
        if k == "this":
            return this_val
        if k == "un" and e["op"] == "*":
            return self.ev(fn, e["x"], env, this_val)
        if k == "cast":
            return self.ev(fn, e["x"], env, this_val)
        if k == "initlist" and len(e.get("a", [])) == 1:
            return self.ev(fn, e["a"][0], env, this_val)
        if k == "ctor":
            a = e.get("a", [])
            if len(a) == 1:
                return self.ev(fn, a[0], env, this_val)
            raise Unsupported("constructor with %d args" % len(a))
        if k == "cond":
            c = self.ev(fn, e["c"], env, this_val)
            if c.a != 0:
                raise Unsupported("non-constant condition")
            return self.ev(fn, e["a"] if c.c else e["b"], env, this_val)
        if k == "bin":
            l, r = self.ev(fn, e["l"], env, this_val), self.ev(fn, e["r"], env, this_val)
            return self.binop(e["op"], l, r)
        if k == "call":
            name = e.get("pn", "").split("::")[-1]
            if name in ("idx", "uidx") and e.get("r") is not None:
                return self.ev(fn, e["r"], env, this_val)
            tgt = self.fb.fns.get(e.get("u"))
            if tgt is None:
                raise Unsupported("unresolved callee " + e.get("pn", "?"))
            recv = self.ev(fn, e["r"], env, this_val) if e.get("r") is not None else None
            args = [self.ev(fn, a, env, this_val) for a in e.get("a", [])]
            return self.call(tgt, recv, args)
        raise Unsupported("node kind %s (%s)" % (k, estr(e)[:40]))

    def binop(self, op, l, r):
        if op == "+":
            return Lin(l.a + r.a, l.c + r.c)
        if op == "-":
            return Lin(l.a - r.a, l.c - r.c)
        if op == "|" and r.a == 0 and l.a % 2 == 0 and r.c in (0, 1):
            return Lin(l.a, l.c | r.c) if l.c >= 0 else self._bad(op)
        if op in ("*", "<<"):
            if op == "<<":
                if r.a != 0:
                    return self._bad(op)
                r = const(2 ** r.c)
            if l.a == 0:
                return Lin(r.a * l.c, r.c * l.c)
            if r.a == 0:
                return Lin(l.a * r.c, l.c * r.c)
            return self._bad(op)
        if op in ("/", ">>"):
            d = r.c if op == "/" else 2 ** r.c
            if r.a != 0 or d != 2 or l.a % 2 != 0 or l.c < 0:
                return self._bad(op)
            return Lin(l.a // 2, l.c // 2)
        if op == "^":
            if r.a != 0 or r.c != 1 or l.a % 2 != 0 or l.c < 0:
                return self._bad(op)
            return Lin(l.a, l.c ^ 1)
        if op in ("&", "%"):
            m = r.c
            if r.a != 0 or (op == "&" and m != 1) or (op == "%" and m != 2) or l.a % 2 != 0 or l.c < 0:
                return self._bad(op)
            return const(l.c & 1)
        if op in ("==", "!=", "<", ">", "<=", ">="):
            if l.a != r.a:
                return self._bad(op)
            v = {"==": l.c == r.c, "!=": l.c != r.c, "<": l.c < r.c, ">": l.c > r.c, "<=": l.c <= r.c, ">=": l.c >= r.c}[op]
            return const(1 if v else 0)
        return self._bad(op)

    def _bad(self, op):
        raise Unsupported("operator %s outside the decomposition domain" % op)


def run(ck, fb, fbd):
    algebra(ck, fb)
    ck.rule("C08.witness", "static_assert witnesses: the six handle laws hold on the constexpr handle members at 0, 1, 2^29-1 and over [0,R) and [2^29-R,2^29) (R = 2^12 quick, 2^18 thorough with clang++ plus 2^14 with g++)")
    rng = (1 << 18) if ck.tier == "thorough" else (1 << 12)
    compile_witness(ck, "C08.witness", "c08_handles.cc", extra_flags=("-DVERIF_RANGE=%d" % rng,), compilers=("clang++",), steps=2000000000)
    if ck.tier == "thorough":
        # second opinion from g++; its constant evaluator keeps every iteration's temporaries alive (2^20 iterations per range
        # exhaust the memory of this sandbox), so it gets the 2^14 ranges
        compile_witness(ck, "C08.witness", "c08_handles.cc", extra_flags=("-DVERIF_RANGE=%d" % (1 << 14),), compilers=("g++",), steps=2000000000)
    mirror(ck, fb)
    orient(ck, fb)
    from .c11 import face_chain_rule, dedup_rule
    face_chain_rule(ck, fb)
    dedup_rule(ck, fb)


def algebra(ck, fb):
    ck.rule("C08.algebra", "for x = 2q+b (all q >= 0, b in {0,1}) and s in {0,1}: full(half(e,s))=e, subidx(half(e,s))=s, half(full(h),subidx(h))=h, opp(opp(h))=h, full(opp(h))=full(h), subidx(opp(h))=1-subidx(h) - for the handle-class members and for the TopologyKernel conversion functions, by symbolic evaluation of their return expressions")
    ev = Evaluator(fb)

    def find(cls_prefix, name, nparams=None, static=None):
        r = [f for f in fb.fns.values() if f.has_cfg and f.name == name and f.cls and f.cls.startswith(cls_prefix) and "/src/OpenVolumeMesh/" in f.file]
        if nparams is not None:
            r = [f for f in r if len(f.d["params"]) == nparams]
        return r

    families = []
    for sup, sub, half_name, full_name in (("EH", "HEH", "halfedge_handle", "edge_handle"), ("FH", "HFH", "halfface_handle", "face_handle")):
        # handle classes
        half = find("OpenVolumeMesh::" + sup, half_name, 1)
        full = find("OpenVolumeMesh::" + sub, full_name, 0)
        opp = find("OpenVolumeMesh::" + sub, "opposite_handle", 0)
        subidx = [f for f in find("OpenVolumeMesh::detail::SubHandleT<OpenVolumeMesh::" + sub, "subidx", 0)]
        if not (half and full and opp and subidx):
            raise AnalysisBroken("C08: handle members for %s/%s not all found (half %d full %d opp %d subidx %d)" % (sup, sub, len(half), len(full), len(opp), len(subidx)))
        families.append(("%s/%s members" % (sup, sub),
                         lambda e, s, f=half[0]: ev.call(f, e, [s]), lambda h, f=full[0]: ev.call(f, h, []),
                         lambda h, f=opp[0]: ev.call(f, h, []), lambda h, f=subidx[0]: ev.call(f, h, []), half[0]))
        # kernel statics
        khalf = [f for f in fb.by_cls.get(TK, []) if f.name == half_name and len(f.d["params"]) == 2 and f.d.get("static") and f.has_cfg]
        kfull = [f for f in fb.by_cls.get(TK, []) if f.name == full_name and len(f.d["params"]) == 1 and f.d.get("static") and f.has_cfg]
        kopp = [f for f in fb.by_cls.get(TK, []) if f.name == "opposite_" + half_name and len(f.d["params"]) == 1 and f.d.get("static") and f.has_cfg]
        if not (khalf and kfull and kopp):
            raise AnalysisBroken("C08: TopologyKernel conversion functions for %s not all found" % sub)
        families.append(("TopologyKernel::%s family" % half_name,
                         lambda e, s, f=khalf[0]: ev.call(f, None, [e, s]), lambda h, f=kfull[0]: ev.call(f, None, [h]),
                         lambda h, f=kopp[0]: ev.call(f, None, [h]), lambda h, f=subidx[0]: ev.call(f, h, []), khalf[0]))
    n = 0
    broke = False
    for label, half, full, opp, subidx, anchor in families:
        try:
            e = Lin(1, 0)
            for s in (0, 1):
                h = half(e, const(s))
                laws = [("full(half(e,%d)) == e" % s, full(h) == e), ("subidx(half(e,%d)) == %d" % (s, s), subidx(h) == const(s)), ("half(e,%d) == 2e+%d" % (s, s), h == Lin(2, s))]
                for txt, ok in laws:
                    n += 1
                    (ck.ok if ok else lambda r, w, t: ck.violate(r, w, t, "C08.algebra:%s:%s" % (label, txt)))("C08.algebra", anchor.where, "%s: %s for all e" % (label, txt))
            for b in (0, 1):
                h = Lin(2, b)
                o = opp(h)
                laws = [("half(full(h),subidx(h)) == h  [b=%d]" % b, half(full(h), subidx(h)) == h), ("opp(opp(h)) == h  [b=%d]" % b, opp(o) == h),
                        ("full(opp(h)) == full(h)  [b=%d]" % b, full(o) == full(h)), ("subidx(opp(h)) == 1-subidx(h)  [b=%d]" % b, subidx(o) == const(1 - b)), ("opp(h) != h  [b=%d]" % b, not (o == h))]
                for txt, ok in laws:
                    n += 1
                    (ck.ok if ok else lambda r, w, t: ck.violate(r, w, t, "C08.algebra:%s:%s" % (label, txt)))("C08.algebra", anchor.where, "%s: %s for all q" % (label, txt))
        except Unsupported as ex:
            # the symbolic domain (straight-line linear forms) cannot express this formulation; the compile-time witness still
            # evaluates the members at the domain boundaries and over three ranges, so a violation found there is reported
            ck.cannot_judge("C08: %s: expression outside the supported domain of the symbolic evaluation: %s" % (label, ex))
            broke = True
    if not broke:
        ck.floor("algebra_laws_evaluated", n, 60)


def mirror(ck, fb):
    ck.rule("C08.mirror", "opposite_halfedge(Edge) swaps from/to; opposite_halfface(Face) maps the REVERSED halfedge range through opposite_halfedge_handle into a vector of equal size; halfedge()/halfface() return the stored entity for sub-index 0 and the mirror for 1; the halfface vertex / halfedge circulators read index size-1-cursor through to-vertex / opposite on the odd side and the identity on the even side")
    ck.rule("C08.step", "next/prev_halfedge_in_halfface return the element after / before the match with wrap-around to the first / last (iterator form), or use (i+1)%n resp. (i+n-1)%n (index form)")
    ck.rule("C08.closed", "add_face(vertices) orients every edge by comparing the stored edge's to-vertex with the current vertex - and by nothing else - for each consecutive pair and for last-to-first")
    tk = {f.name: [] for f in fb.by_cls.get(TK, [])}
    for f in fb.by_cls.get(TK, []):
        if f.has_cfg:
            tk[f.name].append(f)

    def one(name, pred):
        r = [f for f in tk.get(name, []) if pred(f)]
        if len(r) != 1:
            raise AnalysisBroken("C08: TopologyKernel::%s not unique (%d)" % (name, len(r)))
        return r[0]

    f = one("opposite_halfedge", lambda f: "OpenVolumeMeshEdge" in f.d["params"][0]["t"])
    ret = [x for b, i, x in f.tops() if x.get("k") == "ret"][0]
    s = estr(ret)
    p = f.d["params"][0]["n"]
    ok = ("%s.to_vertex(), %s.from_vertex()" % (p, p)) in s
    (ck.ok if ok else lambda r, w, t: ck.violate(r, w, t, "C08.mirror:opposite_halfedge"))("C08.mirror", f.where, "opposite_halfedge(Edge) = Edge(to, from) (%s)" % s[:60])
    f = one("opposite_halfface", lambda f: "OpenVolumeMeshFace" in f.d["params"][0]["t"])
    tr = [x for b, i, x in f.nodes(("call",)) if x.get("pn") == "std::transform"]
    ok = False
    if tr:
        a = [estr(y) for y in f.resolve(tr[0]["a"])]
        ok = len(a) == 4 and "rbegin()" in a[0] and "rend()" in a[1] and "begin()" in a[2] and "opposite_halfedge_handle" in a[3] and a[0].split(".rbegin")[0] == a[1].split(".rend")[0]
        rs = [x for b, i, x in f.nodes(("call",)) if x.get("pn", "").endswith("::resize")]
        ok = ok and any("halfedges().size()" in estr(f.resolve(x["a"])) for x in rs)
    (ck.ok if ok else lambda r, w, t: ck.violate(r, w, t, "C08.mirror:opposite_halfface"))("C08.mirror", f.where, "opposite_halfface(Face) transforms rbegin..rend through opposite_halfedge_handle into an equally sized vector")
    for name, opp, arr in (("halfedge", "opposite_halfedge", "edges_"), ("halfface", "opposite_halfface", "faces_")):
        f = one(name, lambda f: len(f.d["params"]) == 1 and f.d["params"][0]["t"].replace("const ", "").replace("&", "").strip() in ("OpenVolumeMesh::HEH", "OpenVolumeMesh::HFH"))
        rets = [(b, x) for b, i, x in f.tops() if x.get("k") == "ret"]
        good = 0
        for b, x in rets:
            s = estr(x)
            at = {(estr(c), pol) for c, pol, e in f.facts(b)}
            even = any((("subidx() == 0" in c or "% 2) == 0" in c or "& 1) == 0" in c) and pol is True) or (("subidx() == 1" in c) and pol is False) for c, pol in at)
            odd = any((("subidx() == 0" in c or "% 2) == 0" in c or "& 1) == 0" in c) and pol is False) or (("subidx() == 1" in c) and pol is True) for c, pol in at)
            if even and arr in s and opp + "(" not in s:
                good += 1
            if odd and arr in s and opp + "(" in s:
                good += 1
        (ck.ok if good == 2 else lambda r, w, t: ck.violate(r, w, t, "C08.mirror:%s" % name))("C08.mirror", f.where, "%s(h) returns the stored entity on the even side and %s(stored) on the odd side" % (name, opp))
    # circulators
    for cls, fn, odd_map, even_map in (("OpenVolumeMesh::HalfFaceVertexIter", "cur_vh", "to_vertex_handle", "from_vertex_handle"), ("OpenVolumeMesh::detail::HalfFaceHalfEdgeIterImpl", "cur_heh", "opposite_handle", None)):
        fs = [f for f in fb.by_cls.get(cls, []) if f.name == fn and f.has_cfg]
        if not fs:
            raise AnalysisBroken("anchor vanished: %s::%s" % (cls, fn))
        f = fs[0]
        good = 0
        for b, i, x in f.tops():
            if x.get("k") != "ret":
                continue
            s = estr(x)
            at = {(estr(c), pol) for c, pol, e in f.facts(b)}
            odd = any("subidx() == 1" in c and pol is True for c, pol in at)
            even = any("subidx() == 1" in c and pol is False for c, pol in at)
            if odd and "size() - 1) - cur_index_" in s.replace("this.", "") and odd_map in s:
                good += 1
            if even and "[cur_index_]" in s.replace("this.", "") and (even_map is None and "opposite" not in s or even_map and even_map in s):
                good += 1
        (ck.ok if good == 2 else lambda r, w, t: ck.violate(r, w, t, "C08.mirror:%s" % fn))("C08.mirror", f.where, "%s::%s reads [size-1-cursor] through %s on the odd side and [cursor]%s on the even side" % (cls.split("::")[-1], fn, odd_map, " through " + even_map if even_map else ""))
    # next / prev
    for name, fwd in (("next_halfedge_in_halfface", True), ("prev_halfedge_in_halfface", False)):
        f = one(name, lambda f: True)
        rets = [(b, x) for b, i, x in f.tops() if x.get("k") == "ret" and b in f.reach()]
        pos = [(b, x) for b, x in rets if "Invalid" not in estr(x)]
        texts = [estr(x) for b, x in pos]
        mod = [t for t in texts if "%" in t]
        verdict = None
        if mod:
            verdict = True
            for t0 in texts:
                t = t0.replace(" ", "").replace("return", "")
                if "%" not in t:
                    raise AnalysisBroken("C08: %s: mixed iterator/index forms: %s" % (name, texts))
                if "-1)%" in t and "+" not in t.split("-1)%")[0][-14:]:
                    verdict = False  # (i - 1) % n on an unsigned index wraps for i == 0 unless n is a power of two
                    continue
                d = 1 if "+1)%" in t else -1 if "-1)%" in t else None
                if d is None:
                    raise AnalysisBroken("C08: %s: index expression not recognised: %s" % (name, t0))
                if ".opposite_handle()" in t or "opposite_halfedge_handle(" in t:
                    d = -d  # the odd side walks the stored list backwards
                if d != (1 if fwd else -1):
                    verdict = False
        else:
            # iterator form, on canonical strings: IT = the one stepped/compared iterator over the halfface's list, P0 = the halfedge
            from .canon import Canon
            cn = Canon(f)
            its = sorted({m for b, x in pos for m in re.findall(r"it\d+\(", cn.s(x))})
            if not pos:
                raise AnalysisBroken("C08: %s: no positive return found" % name)
            if len(its) != 1:
                raise AnalysisBroken("C08: %s: neither the iterator form nor the modular index form recognised: %s" % (name, texts))
            itname = its[0][:-1]
            itv = [vid for vid, nm in cn._name.items() if nm == itname][0]
            itfull = cn.var({"k": "var", "id": itv, "n": "it"})
            conv = lambda t_: re.sub(r"__normal_iterator\(((?:[^()]|\([^()]*\))*)\)", r"\1", t_)  # iterator -> const_iterator conversions
            canon = lambda n_: conv(cn.s(n_).replace(itfull, "IT")).replace(" ", "")
            cont = conv(cn.s(cn.decl[itv][0]["init"])).replace(" ", "")
            if not cont.endswith(".begin()"):
                raise AnalysisBroken("C08: %s: the iterator does not start at begin(): %s" % (name, cont))
            C = cont[:-len(".begin()")]
            step = wrap = False
            # comparisons are printed with sorted operands (before IT is substituted): accept either order
            at_norm = lambda a_, b_, op_: {"(%s%s%s)" % (a_, op_, b_), "(%s%s%s)" % (b_, op_, a_)}

            has_ne = lambda at_, a_, b_, pol_: any((alt, pol_) in at_ for alt in at_norm(a_, b_, "!="))

            for b, x in pos:
                s_ = canon(x.get("x"))
                at = {(canon(c), pol) for c, pol, e in f.facts(b) if isinstance(pol, bool)}
                if fwd:
                    if s_ == "*(IT+1)" and has_ne(at, "(IT+1)", "%s.end()" % C, True):
                        step = True
                    if s_ == "*%s.begin()" % C and has_ne(at, "(IT+1)", "%s.end()" % C, False):
                        wrap = True
                else:
                    if s_ == "*(IT-1)" and has_ne(at, "IT", "%s.begin()" % C, True):
                        step = True
                    if s_ == "*(%s.end()-1)" % C and has_ne(at, "IT", "%s.begin()" % C, False):
                        wrap = True
            verdict = step and wrap and C == "halfface(P1).halfedges()"
            matched = all(any(canon(c) in ("(*IT==P0)", "(P0==*IT)") and pol is True for c, pol, e in f.facts(b)) for b, x in pos)
            verdict = verdict and matched
            texts = [canon(x.get("x")) for b, x in pos] + ["over " + C]
        (ck.ok if verdict else lambda r, w, t: ck.violate(r, w, t, "C08.step:%s" % name))("C08.step", f.where, "%s steps by %s with wrap-around (%s)" % (name, "+1" if fwd else "-1", texts))
    # add_face(vertices)
    f = one("add_face", lambda f: len(f.d["params"]) == 1 and "VH" in f.d["params"][0]["t"])
    hh = [(b, i, x) for b, i, x in f.nodes(("call",)) if x.get("pn", "") == TK + "::halfedge_handle" and b in f.reach()]
    if len(hh) < 2:
        raise AnalysisBroken("C08: add_face(vertices): halfedge_handle call sites not found")
    for b, i, x in hh:
        a = f.resolve(x["a"])
        sw = strip_casts(a[1])
        expr = sw
        if isinstance(sw, dict) and sw.get("k") == "var":
            # the declaration in the same block
            for bb, ii, d in f.nodes(("decl",)):
                for v in d["vars"]:
                    if v["id"] == sw["id"] and v.get("init") is not None:
                        expr = strip_casts(f.resolve(v["init"]))
        p = cmp_parts(expr)
        s = estr(expr)
        ok = bool(p) and p[0] == "==" and "to_vertex()" in estr(p[1]) and "edge(" in estr(p[1]) and estr(p[2]).strip("()").startswith("*") and "&&" not in s and "||" not in s
        if not ok and bool(p) and p[0] == "!=" and "from_vertex()" in estr(p[1]) and "edge(" in estr(p[1]) and estr(p[2]).strip("()").startswith("*") and "&&" not in s and "||" not in s:
            ok = True  # the equivalent test on the other end point
        if not ok and bool(p) and "&&" not in s and "||" not in s and "vertex()" in s and "edge(" in s:
            ck.cannot_judge("C08.closed %s: add_face(vertices) decides the orientation by another single end-point comparison (%s) - not judged" % (f.loc(x), s[:80]))
            continue
        (ck.ok if ok else lambda r, w, t: ck.violate(r, w, t, "C08.closed:swap"))("C08.closed", f.loc(x), "add_face(vertices): sub-index = (edge(e).to_vertex() == current vertex) and nothing else (%s)" % s[:80])
    ae = [(b, i, x) for b, i, x in f.nodes(("call",)) if x.get("pn", "") == TK + "::add_edge" and b in f.reach()]
    texts = [estr(f.resolve(x["a"])).replace(" ", "") for b, i, x in ae]
    ok = len(ae) == 2 and any("*it,*(it+1)" in t for t in texts) and any("*it,*" in t and "begin()" in t for t in texts)
    (ck.ok if ok else lambda r, w, t: ck.violate(r, w, t, "C08.closed:pairs"))("C08.closed", f.where, "add_face(vertices) connects every consecutive pair and the last vertex with the first (%s)" % texts)


# ---------------------------------------------------------------------------------------------------------------
def is_hfh_strip(f, n):
    """n is a conversion halfface handle -> face handle: h.face_handle() / face_handle(h) with h of type HFH"""
    if not (isinstance(n, dict) and n.get("k") == "call" and n.get("pn", n.get("n", "")).split("::")[-1] == "face_handle"):
        return False
    src = n.get("r") if n.get("r") is not None else (n.get("a") or [None])[0]
    src = unwrap(src)
    t = (src or {}).get("t") or (src or {}).get("rt") or ""
    if isinstance(src, dict) and src.get("k") == "call":
        t = src.get("rt") or src.get("t") or ""
    return "HFH" in t or "HalfFaceHandle" in t or t == ""


def orientation_aware(f):
    """f branches on the sub-index of some handle: h.subidx(), h.idx() & 1, h.idx() % 2"""
    for b in f.reach():
        t = f.term(b)
        if not t or not t.get("cond"):
            continue
        for y in walk(f.resolve(t["cond"])):
            if not isinstance(y, dict):
                continue
            if y.get("k") == "call" and y.get("pn", y.get("n", "")).split("::")[-1] in ("subidx", "is_even", "is_odd"):
                return True
            if y.get("k") == "bin" and y.get("op") in ("&", "%") and any(isinstance(z, dict) and z.get("k") == "call" and z.get("pn", z.get("n", "")).split("::")[-1] in ("idx", "uidx") for z in walk(y)):
                return True
    return False


def orient(ck, fb):
    """no orientation stripping: the stored halfedge list of a face is the list of its halfface 0; code that reaches it
    from a halfface handle (face(h.face_handle()).halfedges(), faces_[...]) and uses its order has to look at the sub-index"""
    from .rule_g import iter_sites
    ck.rule("C08.orient", "the ordered halfedge list of the *face* is reached from a halfface handle only by code that branches on the handle's sub-index (or that merely hands the list on / takes its size): anything else treats the odd halfface as if it had the even one's rotation")
    helpers = {}  # function id -> True when it only returns the stripped list
    sites = []
    for f in fb.repo_fns():
        if not f.has_cfg or "/src/OpenVolumeMesh/" not in f.file:
            continue
        for n, parents, pos in iter_sites(f):
            if not (isinstance(n, dict) and n.get("k") in ("call", "idx")):
                continue
            if n.get("k") == "call":
                if n.get("pn", "") not in ("OpenVolumeMesh::TopologyKernel::face",) or not n.get("a"):
                    continue
                arg = n["a"][0]
            else:
                base = unwrap(n.get("b"))
                if not (isinstance(base, dict) and base.get("k") == "mem" and base.get("f") == "faces_"):
                    continue
                arg = n.get("i")
            if not any(is_hfh_strip(f, y) for y in walk(arg)):
                continue
            # how is the Face used?
            use = "other"
            ps = [p for p in parents if isinstance(p, dict) and p.get("k") not in ("upcast", "defarg", "definit", "cast", "ctor") and "k" in p]
            chain = list(reversed(ps))
            if chain and chain[0].get("k") == "call" and chain[0].get("pn", "").split("::")[-1] == "halfedges":
                use = "list"
                if len(chain) > 1 and chain[1].get("k") == "call" and chain[1].get("pn", "").split("::")[-1] in ("size", "empty"):
                    use = "count"
                elif len(chain) > 1 and chain[1].get("k") == "ret":
                    use = "returned"
            elif chain and chain[0].get("k") == "ret":
                use = "returned"
            sites.append((f, n, pos, use))
    ck.analysed["orientation_stripping_sites"] = len(sites)
    ck.floor("orientation_stripping_sites", len(sites), 3)
    for f, n, pos, use in sites:
        if use == "returned" and len([x for x in f.tops() if x[2].get("k") == "ret"]) == 1:
            helpers[f.id] = f
    for f, n, pos, use in sites:
        if use == "count":
            ck.ok("C08.orient", f.loc(n), "%s only takes the size of the face's list" % f.pq.split("OpenVolumeMesh::")[-1])
            continue
        if f.id in helpers and use == "returned":
            continue
        ok = orientation_aware(f)
        (ck.ok if ok else lambda r, w, t: ck.violate(r, w, t, "C08.orient:%s" % f.pq))("C08.orient", f.loc(n), "%s reaches the face's stored list from a halfface handle (%s) and branches on the sub-index" % (f.pq.split("OpenVolumeMesh::")[-1], estr(n)[:60]))
    # users of the hand-on helpers
    for hid, h in helpers.items():
        users = {}
        for g, b, i, x in fb.callers(hid):
            if not g.has_cfg:
                continue
            users.setdefault(g.id, [g, []])[1].append(x)
        for gid, (g, calls) in users.items():
            count_only = True
            for n, parents, pos in iter_sites(g):
                if isinstance(n, dict) and n.get("k") == "call" and n.get("u") == hid:
                    ps = [p for p in parents if isinstance(p, dict) and p.get("k") not in ("upcast", "defarg", "definit", "cast", "ctor") and "k" in p]
                    par = ps[-1] if ps else None
                    if not (par is not None and par.get("k") == "call" and par.get("pn", "").split("::")[-1] in ("size", "empty")):
                        count_only = False
            ok = count_only or orientation_aware(g)
            (ck.ok if ok else lambda r, w, t: ck.violate(r, w, t, "C08.orient:%s" % g.pq))("C08.orient", g.where, "%s uses %s() (the face's stored list reached from a halfface handle) %s" % (g.pq.split("OpenVolumeMesh::")[-1], h.name, "for its size only" if count_only else "and branches on the sub-index"))
