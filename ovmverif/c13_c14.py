"""C13 (copy/assignment are deep) and C14 (property registry) - ownership, flag-synchronisation and protocol rules"""
import re

from .canon import Canon, ceq, eq_match, split_eq
from .extract import AnalysisBroken
from .facts import as_assign, estr, need_names, unwrap, walk
from .rule_g import iter_sites

TK = "OpenVolumeMesh::TopologyKernel"
RM = "OpenVolumeMesh::ResourceManager"
PSB = "OpenVolumeMesh::PropertyStorageBase"
ENTITY_TAGS = ("Vertex", "Edge", "HalfEdge", "Face", "HalfFace", "Cell", "Mesh")


def rm_fn(fb, name, **kw):
    r = [f for f in fb.by_cls.get(RM, []) if f.name == name and f.has_cfg]
    for k, v in kw.items():
        r = [f for f in r if f.d.get(k) == v]
    return r


def lambdas_of(fb, f):
    out = []
    for g in fb.fns.values():
        if g.kind == "lambda" and g.d.get("lambda_parent") == f.id and g.has_cfg:
            out.append(g)
    return out


def owning_type(t):
    """does the type hold shared / non-owning state?"""
    bad = []
    if "*" in t and "std::vector" not in t.split("*")[0][-12:]:
        bad.append("raw pointer")
    if "shared_ptr<" in t or "weak_ptr<" in t:
        bad.append("shared_ptr")
    if "&" in t:
        bad.append("reference")
    return bad


# ------------------------------------------------------------------------------------------- C13
def run_c13(ck, fb, fbd):
    ck.rule("C13.members", "every data member of TopologyKernel and of the tetrahedral/hexahedral kernels has value semantics (no raw pointer, reference or shared_ptr), so the defaulted copy operations are deep; classes holding shared storage (ResourceManager, GeometryKernel) have user-provided copy constructor and assignment")
    ck.rule("C13.clone", "the copy paths of ResourceManager store no PropertyStorage pointer taken from the source: only results of clone() are inserted, each clone is detached from the source's tracker inside clone() and attached to the target's tracker of the same entity tag as the set it is inserted into; only the persistent set is iterated")
    ck.rule("C13.assign", "ResourceManager::operator= tests self-assignment first, then anonymises all existing properties, resizes the properties of all seven entity kinds to the *source's* counts and clones the persistent properties")
    ck.rule("C13.storage", "PropertyStorageT::clone copy-constructs the storage from *this (name, type, flags, default and data) and detaches it with set_tracker(nullptr); GeometryKernel re-creates its position property in both copy operations and copies element values only; Tracker's copy operations never read the source's tracked set")
    n = 0
    for cls in (TK, "OpenVolumeMesh::TetrahedralMeshTopologyKernel", "OpenVolumeMesh::HexahedralMeshTopologyKernel"):
        r = fb.records.get(cls)
        if not r:
            raise AnalysisBroken("record %s not found" % cls)
        for fl in r["fields"]:
            n += 1
            bad = owning_type(fl["t"])
            (ck.ok if not bad else lambda r_, w, t: ck.violate(r_, w, t, "C13.members:%s:%s" % (cls, fl["n"])))("C13.members", "%s:%s" % (r["file"], fl["line"]), "%s::%s has value semantics (%s)" % (cls.split("::")[-1], fl["n"], fl["t"].replace("OpenVolumeMesh::", "")[:60]))
        ms = r["methods"]
        cc = [m for m in ms if m.get("copy_ctor")]
        ca = [m for m in ms if m.get("copy_assign")]
        ok = all(not m.get("user_provided") or m.get("defaulted") for m in cc + ca)
        (ck.ok if ok else lambda r_, w, t: ck.violate(r_, w, t, "C13.members:%s:copyops" % cls))("C13.members", r["file"], "%s copy operations are defaulted (member-wise deep copy)" % cls.split("::")[-1])
    ck.floor("kernel_fields", n, 18)
    r = fb.records[RM]
    shared = [fl["n"] for fl in r["fields"] if "shared_ptr<" in fl["t"] or "Tracker<" in fl["t"]]
    cc = [m for m in r["methods"] if m.get("copy_ctor") and m.get("user_provided")]
    ca = [m for m in r["methods"] if m.get("copy_assign") and m.get("user_provided")]
    (ck.ok if (cc and ca and len(shared) >= 2) else lambda r_, w, t: ck.violate(r_, w, t, "C13.members:RM:copyops"))("C13.members", r["file"], "ResourceManager (shared storage members %s) has user-provided copy constructor and assignment" % shared)
    # clone path
    cp = rm_fn(fb, "clone_persistent_properties_from")
    if not cp:
        raise AnalysisBroken("anchor vanished: ResourceManager::clone_persistent_properties_from")
    cp = cp[0]
    lams = lambdas_of(fb, cp)
    tags = set()
    for g in lams:
        tag = None
        for p in g.d["params"]:
            if "Entity::" in p["t"]:
                tag = p["t"].split("Entity::")[-1].strip()
        if not tag:
            continue
        tags.add(tag)
        inserts = [(b, i, x) for b, i, x in g.nodes(("call",)) if x.get("pn", "").split("::")[-1] == "insert" and x.get("r") is not None]
        where = g.where
        ok_ins = bool(inserts)
        for b, i, x in inserts:
            arg = g.resolve(x["a"][0])
            vs = [y for y in walk(arg) if isinstance(y, dict) and y.get("k") == "var"]
            from_clone = False
            for v in vs:
                for bb, ii, d in g.nodes(("decl",)):
                    for dv in d["vars"]:
                        if dv["id"] == v["id"] and dv.get("init") is not None:
                            if any(isinstance(y, dict) and y.get("k") == "call" and y.get("pn", "").endswith("::clone") for y in walk(g.resolve(dv["init"]))):
                                from_clone = True
            ok_ins = ok_ins and from_clone
        (ck.ok if ok_ins else lambda r_, w, t: ck.violate(r_, w, t, "C13.clone:insert"))("C13.clone", where, "copy path <%s>: only clone() results are inserted into the target's persistent set" % tag)
        # which sets are read / written, with which tag
        gets = [x for b, i, x in g.nodes(("call",)) if x.get("pn", "").endswith("::get") and x.get("ta")]
        ok_tag = bool(gets) and all(x["ta"][0].endswith("Entity::" + tag) for x in gets)
        only_persistent = all(any(isinstance(y, dict) and y.get("k") == "mem" and y.get("f") == "persistent_props_" for y in walk(g.resolve(x.get("r")))) for x in gets)
        trk = [x for b, i, x in g.nodes(("call",)) if x.get("pn", "").endswith("::storage_tracker") and x.get("ta")]
        ok_trk = bool(trk) and all(x["ta"][0].endswith("Entity::" + tag) for x in trk) and any(x.get("pn", "").endswith("::set_tracker") for b, i, x in g.nodes(("call",)))
        # every persistent property is cloned, whatever the entity counts are: the inserts are conditional on nothing
        # but the loop over the source's persistent set
        cg = Canon(g)
        for b, i, x in inserts:
            extra = sorted({(cg.s(c_), p_) for c_, p_, e_ in g.facts(b) if isinstance(p_, bool) and (g.term(e_[0]) or {}).get("c") not in ("ForStmt", "WhileStmt", "CXXForRangeStmt", "DoStmt")})
            counts = [e_ for e_ in extra if re.search(r"\bn(_\w+)?\(\)|\.size\(\)|\.empty\(\)", e_[0]) and "persistent_props_" not in e_[0]]
            if extra and not counts:
                ck.cannot_judge("C13.clone %s: copy path <%s>: the clone-and-insert step is conditional on %s - whether every persistent property is still cloned is not judged" % (g.loc(x), tag, extra[:1]))
            else:
                (ck.ok if not extra else lambda r_, w, t: ck.violate(r_, w, t, "C13.clone:conditional:%s" % tag))("C13.clone", g.loc(x), "copy path <%s>: the clone-and-insert step depends on no entity count or container size - a persistent property exists whatever the counts are (%s)" % (tag, extra[:2] if extra else "unconditional"))
        (ck.ok if (ok_tag and only_persistent and ok_trk) else lambda r_, w, t: ck.violate(r_, w, t, "C13.clone:tag:%s" % tag))("C13.clone", where, "copy path <%s>: iterates only the source's persistent set of that tag and attaches each clone to this->storage_tracker<%s>()" % (tag, tag))
    (ck.ok if tags == set(ENTITY_TAGS) else lambda r_, w, t: ck.violate(r_, w, t, "C13.clone:tags"))("C13.clone", cp.where, "clone_persistent_properties_from covers all seven entity kinds (%s)" % sorted(tags))
    # operator=
    asg = [f for f in fb.by_cls.get(RM, []) if f.d.get("copy_assign") and f.has_cfg]
    if not asg:
        raise AnalysisBroken("anchor vanished: ResourceManager::operator=")
    asg = asg[0]
    other = asg.d["params"][0]
    # self-assignment guard first
    first = None
    for b in sorted(asg.reach(), reverse=True):
        t = asg.term(b)
        if t and t.get("cond"):
            first = estr(asg.resolve(t["cond"]))
            break
    ok = first is not None and "this" in first and other["n"] in first and "==" in first
    (ck.ok if ok else lambda r_, w, t: ck.violate(r_, w, t, "C13.assign:self"))("C13.assign", asg.where, "operator= begins with the self-assignment test (%s)" % first)
    # the anonymise step itself (clear_all_props -> clear_props<K>): a property of the target that is still held by a handle
    # must leave the persistent set *and* lose its flag, or it can never be re-persisted (shared with C14)
    clear_props_rule(ck, fb, "C13.assign")
    selfguard_rule(ck, fb)
    calls = [(b, i, x) for b, i, x in asg.nodes(("call",))]
    order = [x.get("pn", "").split("::")[-1] for b, i, x in sorted(calls, key=lambda z: (-z[0], z[1])) if x.get("cc") == RM]
    pos = {nm: k for k, nm in reversed(list(enumerate(order)))}
    ok = "clear_all_props" in pos and "clone_persistent_properties_from" in pos and pos["clear_all_props"] < pos["clone_persistent_properties_from"]
    (ck.ok if ok else lambda r_, w, t: ck.violate(r_, w, t, "C13.assign:order"))("C13.assign", asg.where, "operator= calls clear_all_props() before clone_persistent_properties_from() (%s)" % order)
    # resizes: all seven tags, each sized from the source
    sized = {}
    holders = [asg] + lambdas_of(fb, asg)
    for g in holders:
        for b, i, x in g.nodes(("call",)):
            nm = x.get("pn", "").split("::")[-1]
            if nm == "resize_props" and x.get("ta"):
                tag = x["ta"][0].split("Entity::")[-1]
                arg = g.resolve(x["a"][0])
                src = any(isinstance(y, dict) and y.get("k") == "var" and y.get("n") == other["n"] for y in walk(arg))
                # handles held on the target must shrink as well as grow: the resize is unconditional
                cond = sorted({(s_, p_) for s_, p_, e_ in Canon(g).facts(b)})
                if cond:
                    ck.violate("C13.assign", g.loc(x), "operator= resizes the %s properties to the source's count unconditionally (found under %s)" % (tag, cond[:2]), "C13.assign:resize:%s:conditional" % tag)
                sized[tag] = sized.get(tag, True) and src
            elif nm in ("resize_vprops", "resize_eprops", "resize_fprops", "resize_cprops"):
                arg = g.resolve(x["a"][0])
                src = any(isinstance(y, dict) and y.get("k") == "var" and y.get("n") == other["n"] for y in walk(arg))
                for tag in {"v": ["Vertex"], "e": ["Edge", "HalfEdge"], "f": ["Face", "HalfFace"], "c": ["Cell"]}[nm[7]]:
                    sized[tag] = sized.get(tag, True) and src
    for tag in ENTITY_TAGS:
        ok = sized.get(tag) is True
        (ck.ok if ok else lambda r_, w, t: ck.violate(r_, w, t, "C13.assign:resize:%s" % tag))("C13.assign", asg.where, "operator= resizes the %s properties to the source's count (%s)" % (tag, "from %s" % other["n"] if sized.get(tag) else "missing" if tag not in sized else "NOT from the source"))
    # the copy operations of GeometryKernel ask the registry for the position property: its answer may be "refused"
    from .rule_u import optional_rule
    optional_rule(ck, fb)
    # clone() of every storage instantiation
    clone_rule(ck, fb)
    # GeometryKernel copy ops
    ngk = 0
    for f in fb.fns.values():
        if f.cls and f.cls.startswith("OpenVolumeMesh::GeometryKernel<") and f.has_cfg and (f.d.get("copy_ctor") or (f.name == "operator=" and not f.d.get("move_assign"))):
            txt = " ".join(estr(x) for b, i, x in f.elements())
            if f.d.get("copy_ctor"):
                ngk += 1
                ok = "make_prop()" in txt and "copy(" in txt and "position_(other.position_)" not in txt.replace(" ", "")
                (ck.ok if ok else lambda r_, w, t: ck.violate(r_, w, t, "C13.storage:geomcopy"))("C13.storage", f.where, "GeometryKernel copy constructor re-creates position_ with make_prop() and copies values")
            elif f.d.get("inst") or "make_prop" in txt:
                if "make_prop()" in txt or "operator=" in txt:
                    ngk += 1
                    ok = ("make_prop()" in txt and "copy(" in txt) or ("operator=" in txt and "make_prop" not in txt and "position_" not in txt)
                    (ck.ok if ok else lambda r_, w, t: ck.violate(r_, w, t, "C13.storage:geomassign"))("C13.storage", f.where, "GeometryKernel assignment re-creates position_ (or forwards to the templated assignment)")
    ck.floor("geometry_kernel_copy_ops", ngk, 4)
    # Tracker copy operations
    for f in fb.fns.values():
        if f.cls and f.cls.startswith("OpenVolumeMesh::detail::Tracker<") and f.has_cfg and (f.d.get("copy_ctor") or f.d.get("copy_assign")):
            reads = [x for b, i, x in f.nodes(("mem",)) if x.get("f") == "tracked_" and unwrap(x.get("b")).get("k") != "this"]
            (ck.ok if not reads else lambda r_, w, t: ck.violate(r_, w, t, "C13.storage:tracker"))("C13.storage", f.where, "%s never reads the source's tracked set" % ("Tracker copy constructor" if f.d.get("copy_ctor") else "Tracker copy assignment"))


def clone_rule(ck, fb, rule="C13.storage"):
    """PropertyStorageT::clone (the copy path of meshes): copy-construct from *this - flags included - and detach"""
    nclone = 0
    for f in fb.fns.values():
        if f.name == "clone" and f.cls and f.cls.startswith("OpenVolumeMesh::PropertyStorageT<") and f.has_cfg and "/src/OpenVolumeMesh/" in f.file:
            nclone += 1
            copy_from_this = False
            for b, i, x in f.nodes(("call", "ctor")):
                if x.get("pn", "").startswith("std::make_shared") or x.get("k") == "ctor":
                    args = f.resolve(x.get("a", []))
                    if x.get("pn", "").startswith("std::make_shared") and len(x.get("a", [])) == 1 and estr(args).strip("()") in ("*this", "this"):
                        copy_from_this = True
            detached = any(x.get("pn", "").endswith("::set_tracker") and estr(f.resolve(x.get("a", []))) in ("nullptr", "None", "") or (x.get("pn", "").endswith("::set_tracker") and unwrap(f.resolve(x["a"][0])).get("t") == "nullptr") for b, i, x in f.nodes(("call",)))
            ok = copy_from_this and detached
            (ck.ok if ok else lambda r_, w, t: ck.violate(r_, w, t, "%s:clone" % rule))(rule, f.where, "%s::clone copy-constructs from *this and detaches the copy" % f.cls.replace("OpenVolumeMesh::", "")[:50])
    ck.floor("storage_clone_instantiations", nclone, 5)


ENTITY_WORDS = {"vertex": "Vertex", "edge": "Edge", "halfedge": "HalfEdge", "face": "Face", "halfface": "HalfFace", "cell": "Cell", "mesh": "Mesh"}


def tag_rule(ck, fb):
    """the entity-named convenience members of ResourceManager forward with the entity tag their name says"""
    import re
    ck.rule("C14.tag", "every entity-named convenience member of ResourceManager (request_K_property, create_*_K_property, get_K_property, K_property_exists, n_K_props, K_props_begin/end, clear_K_props) forwards with Entity::K and nothing else")
    n = 0
    seen = set()
    for f in fb.by_cls.get(RM, []):
        if not f.has_cfg:
            continue
        m = re.search(r"(?:^|_)(halfedge|halfface|vertex|edge|face|cell|mesh)_(?:property|props)", f.name)
        if not m:
            continue
        tags = set()
        for b, i, x in f.nodes(("call",)):
            for t in x.get("ta") or []:
                if isinstance(t, str) and "Entity::" in t:
                    tags.add(t.split("Entity::")[-1])
        key = (f.name, f.where)
        if key in seen:
            continue
        seen.add(key)
        n += 1
        want = ENTITY_WORDS[m.group(1)]
        (ck.ok if tags == {want} else lambda r_, w, t: ck.violate(r_, w, t, "C14.tag:%s" % f.name))("C14.tag", f.where, "%s forwards with Entity::%s (found %s)" % (f.name, want, sorted(tags)))
    ck.floor("entity_named_wrappers", n, 68)


def flag_writer_rule(ck, fb):
    """the storage's persistent_/shared_ flags are written by their own setter (and constructors) only: any other writer
    changes a flag without the persistent set of the ResourceManager following"""
    n = 0
    for f in fb.repo_fns():
        if not f.has_cfg:
            continue
        for b, i, x in f.nodes(("asg", "minit")):
            fld = None
            if x.get("k") == "asg":
                l = unwrap(f.resolve(x["l"]))
                if isinstance(l, dict) and l.get("k") == "mem" and l.get("f") in ("persistent_", "shared_") and PSB.split("::")[-1] in (l.get("o") or l.get("t") or PSB):
                    fld = l["f"]
            elif x.get("f") in ("persistent_", "shared_") and f.cls == PSB:
                fld = None  # constructors initialise
            if fld is None:
                continue
            if f.cls != PSB and not (f.cls or "").startswith(PSB):
                # another class with members of the same name is not the storage
                if not (f.cls or "").endswith("PropertyStorageBase"):
                    continue
            n += 1
            want = "set_" + fld[:-1]
            ok = f.name == want or f.d.get("kind") == "ctor"
            (ck.ok if ok else lambda r_, w, t: ck.violate(r_, w, t, "C14.flagsync:writer:%s:%s" % (f.name, fld)))("C14.flagsync", f.loc(x), "PropertyStorageBase::%s is assigned in %s (only %s and the constructors may)" % (fld, f.name, want))
    ck.floor("storage_flag_writers", n, 2)


def attached_rule(ck, fb):
    """handle-side observer: 'if (prop)' asks whether the storage is still attached to a mesh"""
    ck.rule("C14.attached", "PropertyStoragePtr::operator bool() forwards to the storage's own operator bool (Tracked::has_tracker()): a handle that outlives its mesh reports being detached; comparing the shared_ptr with nullptr instead would stay true forever")
    n = 0
    seen = set()
    for f in fb.fns.values():
        if not (f.has_cfg and f.cls and f.cls.startswith("OpenVolumeMesh::PropertyStoragePtr<") and f.name == "operator bool") or f.where in seen:
            continue
        seen.add(f.where)
        n += 1
        rets = [x for b, i, x in f.tops() if x.get("k") == "ret"]
        ok = len(rets) == 1 and any(isinstance(y, dict) and y.get("k") == "call" and y.get("pn", "").endswith("PropertyStorageBase::operator bool") for y in walk(f.resolve(rets[0].get("x"))))
        (ck.ok if ok else lambda r_, w, t: ck.violate(r_, w, t, "C14.attached"))("C14.attached", f.where, "PropertyStoragePtr::operator bool() returns the storage's attached state (%s)" % estr(f.resolve(rets[0].get("x")))[:60] if rets else "?")
    base = [f for f in fb.fns.values() if f.has_cfg and f.cls == PSB and f.name == "operator bool"]
    for f in base[:1]:
        rets = [x for b, i, x in f.tops() if x.get("k") == "ret"]
        ok = len(rets) == 1 and "has_tracker()" in estr(f.resolve(rets[0].get("x")))
        (ck.ok if ok else lambda r_, w, t: ck.violate(r_, w, t, "C14.attached:base"))("C14.attached", f.where, "PropertyStorageBase::operator bool() is Tracked::has_tracker()")
    ck.floor("handle_bool_conversions", n + len(base[:1]), 2)


def selfguard_rule(ck, fb):
    """every user-provided copy assignment of a class of the mesh hierarchy starts with the self-assignment test"""
    n = 0
    seen = set()
    for f in fb.repo_fns():
        if not (f.d.get("copy_assign") and f.has_cfg) or f.d.get("defaulted") or f.where in seen:
            continue
        if not f.cls or not any(k in f.cls for k in ("ResourceManager", "GeometryKernel", "TopologyKernel")):
            continue
        seen.add(f.where)
        n += 1
        other = f.d["params"][0]["n"]
        first = None
        for b in sorted(f.reach(), reverse=True):
            t = f.term(b)
            if t and t.get("cond"):
                first = (b, estr(f.resolve(t["cond"])))
                break
        ok = first is not None and "this" in first[1] and other in first[1] and "==" in first[1]
        if ok:
            # nothing happens before the test: no call / assignment element precedes it in the entry path
            pre = [x for b, i, x in f.tops() if f.dominates((b, i), (first[0], 0)) and b != first[0] and x.get("k") in ("call", "asg")]
            ok = not pre
        (ck.ok if ok else lambda r_, w, t: ck.violate(r_, w, t, "C13.assign:self:%s" % f.cls))("C13.assign", f.where, "%s::operator=(const&) begins with the self-assignment test (%s)" % (f.cls.split("::")[-1], first[1] if first else None))
    ck.floor("user_provided_copy_assignments", n, 2)


# ------------------------------------------------------------------------------------------- C14
def clear_props_rule(ck, fb, rule="C14.flagsync"):
    """clear_props (the anonymise step of clear() and of ResourceManager::operator=) un-persists before clearing the set"""
    insts = lambda name: [f for f in fb.by_cls.get(RM, []) if f.name == name and f.has_cfg and f.d.get("inst")]
    fs3 = insts("clear_props")
    ck.floor("clear_props_instantiations", len(fs3), 7)
    bad = 0
    for f in fs3:
        clears = [(b, i, x) for b, i, x in f.nodes(("call",)) if x.get("pn", "").split("::")[-1] == "clear" and any(isinstance(y, dict) and y.get("f") == "persistent_props_" for y in walk(f.resolve(x.get("r"))))]
        unp = [(b, i, x) for b, i, x in f.nodes(("call",)) if x.get("pn", "") == PSB + "::set_persistent" and unwrap(f.resolve(x["a"][0])).get("v") is False]
        uns = [(b, i, x) for b, i, x in f.nodes(("call",)) if x.get("pn", "") == PSB + "::set_shared" and unwrap(f.resolve(x["a"][0])).get("v") is False]
        ok = bool(clears) and bool(unp) and bool(uns)
        if ok:
            # the un-persist loop ranges over the persistent set and precedes the clear; the un-share loop over the tracker
            loops = f.loops()
            rng = {}
            for hdr, body, backs in loops:
                t = f.term(hdr)
                if t and t.get("range") is not None:
                    rng[hdr] = (estr(f.resolve(t["range"])), body)
            ok1 = any("persistent_props_" in r and any(b in body for b, i, x in unp) for r, body in rng.values())
            ok2 = any("storage_tracker" in r and any(b in body for b, i, x in uns) for r, body in rng.values())
            ok3 = all(not f.dominates((cb, ci), (b, i)) for cb, ci, cx in clears for b, i, x in unp)
            ok = ok1 and ok2 and ok3
        if not ok:
            bad += 1
    (ck.ok if bad == 0 else lambda r_, w_, t: ck.violate(r_, w_, t, "%s:clear_props" % rule))(rule, fs3[0].where, "clear_props (%d instantiations) un-persists every member of the persistent set before clearing it and un-shares every tracked storage" % len(fs3))
    # clear_all_props (the anonymise step of clear(), clear_all_props() and operator=) covers every entity kind that has a
    # clear_props instantiation: a kind left out keeps its persistent/shared storages through clear() and is cloned a second
    # time by operator= (round 5, C14i: an explicit list that forgot Entity::Mesh)
    cap = [f for f in fb.by_cls.get(RM, []) if f.name == "clear_all_props" and f.has_cfg]
    if len(cap) != 1:
        raise AnalysisBroken("anchor vanished: ResourceManager::clear_all_props")
    cap = cap[0]
    group = [cap] + [g for g in fb.fns.values() if g.kind == "lambda" and (g.d.get("lambda_parent") or "").startswith(cap.id) and g.has_cfg]
    called = {x.get("u") for g in group for b, i, x in g.nodes(("call",)) if b in g.reach()}
    missing = sorted(f.id.split("@S@")[-1].rstrip(">#") for f in fs3 if f.id not in called)
    (ck.ok if not missing else lambda r_, w_, t: ck.violate(r_, w_, t, "%s:clear_all_props:%s" % (rule, ",".join(missing))))(rule, cap.where, "clear_all_props reaches clear_props<K> for every entity kind K that has properties (%d kinds%s)" % (len(fs3), "; not reached: " + ", ".join(missing) if missing else ""))


def run_c14(ck, fb, fbd):
    ck.rule("C14.find", "internal_find_property rejects the empty name before looking and matches only storages that are shared, carry the requested name and the requested internal type name")
    ck.rule("C14.create", "create_shared/create_persistent_property create only when the lookup failed and return {} otherwise; request_property returns the found property before creating; anonymous requests create private (unshared) storages")
    ck.rule("C14.transition", "set_persistent(true) requires shared(), set_shared(true) requires a name and a failed lookup, set_shared(false) first clears persistence; a throwing transition changes nothing before the throw")
    ck.rule("C14.flagsync", "the persistent set and the storages' persistent/shared flags change together: every insert is paired with set_persistent(true), every erase with set_persistent(false), and clear_props un-persists every member before clearing the set and un-shares every tracked storage")
    ck.rule("C14.tracking", "Tracked::tracker_ is written only in set_tracker/remove/tracker_removed and the constructors; set_tracker removes before and adds after; ~Tracker notifies every tracked element and ~Tracked removes itself; no range-for over a tracker or persistent set mutates that same set in its body")
    insts = lambda name: [f for f in fb.by_cls.get(RM, []) if f.name == name and f.has_cfg and f.d.get("inst")]
    # ---- find
    fs = insts("internal_find_property")
    ck.floor("internal_find_property_instantiations", len(fs), 20)
    bad_empty = bad_match = 0
    for f in fs:
        cn = Canon(f)
        rets = [(b, i, x) for b, i, x in f.tops() if x.get("k") == "ret" and b in f.reach()]
        pos_ret = [(b, i, x) for b, i, x in rets if "prop_ptr_from_storage" in cn.s(x.get("x"))]
        ok_empty = False
        for b, i, x in rets:
            if (b, i, x) in pos_ret:
                continue
            if ("P0.empty()", True) in {(s_, p_) for s_, p_, c_ in cn.facts(b)}:
                ok_empty = True
        # the loop is only reached when the name is not empty
        loop_guard = all(("P0.empty()", False) in {(s_, p_) for s_, p_, c_ in cn.facts(b)} for b, i, x in pos_ret)
        if not (ok_empty and loop_guard):
            bad_empty += 1
        for b, i, x in pos_ret:
            at = {(s_, p_) for s_, p_, c_ in cn.facts(b)}
            m = re.fullmatch(r"optional\(prop_ptr_from_storage\((.*)\)\)", cn.s(x.get("x")))
            E = m.group(1) if m else "?"
            need = [("%s.shared()" % E, True), (ceq("%s.name()" % E, "P0"), True), (ceq("%s.internal_type_name()" % E, "internal_type_name()"), True)]
            if not (all(nd in at for nd in need) and E.startswith("each(storage_tracker(")):
                bad_match += 1
        if not pos_ret:
            bad_match += 1
    w = fs[0].where
    (ck.ok if bad_empty == 0 else lambda r_, w_, t: ck.violate(r_, w_, t, "C14.find:empty"))("C14.find", w, "internal_find_property (%d instantiations) returns {} for an empty name and only searches otherwise" % len(fs))
    (ck.ok if bad_match == 0 else lambda r_, w_, t: ck.violate(r_, w_, t, "C14.find:match"))("C14.find", w, "internal_find_property matches on shared() && name()==_name && internal_type_name()==type_name")
    # ---- create / request
    for name in ("create_shared_property", "create_persistent_property"):
        fs2 = insts(name)
        if not fs2:
            raise AnalysisBroken("no instantiation of ResourceManager::" + name)
        bad = 0
        for f in fs2:
            cn = Canon(f)
            creates = [(b, i, x) for b, i, x in f.nodes(("call",)) if x.get("pn", "").endswith("::internal_create_property")]
            for b, i, x in creates:
                facts = [(s_, p_) for s_, p_, c_ in cn.facts(b)]
                if not any(s.startswith("internal_find_property(P0)") and pol is False for s, pol in facts):
                    bad += 1
                a = f.resolve(x.get("a", []))
                if not (len(a) >= 3 and unwrap(a[2]).get("v") is True):
                    bad += 1
            if not creates:
                bad += 1
        (ck.ok if bad == 0 else lambda r_, w_, t: ck.violate(r_, w_, t, "C14.create:%s" % name))("C14.create", fs2[0].where, "%s (%d instantiations) creates a shared storage only when the lookup failed" % (name, len(fs2)))
        # shared implies named: the lookup never finds the empty name, so it cannot be what refuses it
        unnamed = 0
        for f in fs2:
            cn = Canon(f)
            for b, i, x in f.nodes(("call",)):
                if x.get("pn", "").endswith("::internal_create_property") and b in f.reach():
                    if ("P0.empty()", False) not in {(s_, p_) for s_, p_, c_ in cn.facts(b)}:
                        unnamed += 1
        (ck.ok if unnamed == 0 else lambda r_, w_, t: ck.violate(r_, w_, t, "C14.create:%s:unnamed" % name))("C14.create", fs2[0].where, "%s creates its shared storage only under the fact that the name is not empty (%d creating site(s) without it)" % (name, unnamed))
    fs2 = insts("request_property")
    bad = 0
    for f in fs2:
        cn = Canon(f)
        pname = f.d["params"][0]["n"]
        creates = [(b, i, x) for b, i, x in f.nodes(("call",)) if x.get("pn", "").endswith("::internal_create_property")]
        for b, i, x in creates:
            facts = [(s_, p_) for s_, p_, c_ in cn.facts(b)]
            if not any(s.startswith("internal_find_property(P0)") and pol is False for s, pol in facts):
                bad += 1
            a = f.resolve(x.get("a", []))
            sh = unwrap(a[2]) if len(a) >= 3 else None
            # shared = !_name.empty()
            ok_sh = False
            if isinstance(sh, dict) and sh.get("k") == "var":
                from .rule_g import single_assignment_init
                init = single_assignment_init(f, sh["id"])
                ok_sh = init is not None and estr(f.resolve(init)).replace(" ", "") == "!%s.empty()" % pname
            if not ok_sh:
                bad += 1
        if not creates:
            bad += 1
    (ck.ok if bad == 0 else lambda r_, w_, t: ck.violate(r_, w_, t, "C14.create:request_property"))("C14.create", fs2[0].where, "request_property (%d instantiations) returns the found property first and creates with shared = !_name.empty()" % len(fs2))
    # ---- transitions
    for name in ("set_persistent", "set_shared"):
        fs2 = insts(name)
        if not fs2:
            raise AnalysisBroken("no instantiation of ResourceManager::" + name)
        bad_guard = bad_n = bad_flag = 0
        for f in fs2:
            cn = Canon(f)
            pen = f.d["params"][1]["n"]
            throws = [(b, i, x) for b, i, x in f.nodes(("throw",)) if b in f.reach()]
            effects_pos = []
            for b, i, x in f.nodes(("call",)):
                nm = x.get("pn", "")
                if nm.split("::")[-1] in ("insert", "erase") or (nm.startswith(PSB + "::set_") and nm.split("::")[-1] in ("set_persistent", "set_shared")) or (x.get("cc") == RM and nm.split("::")[-1] in ("set_persistent", "set_shared")):
                    effects_pos.append((b, i, nm.split("::")[-1]))
            for b, i, x in throws:
                if any(eb == b and ei < i or (eb != b and b in f.reachable_from(eb)) for eb, ei, nm in effects_pos):
                    bad_n += 1
            if name == "set_persistent":
                ins = [(b, i) for b, i, nm in effects_pos if nm == "insert"]
                for b, i in ins:
                    at = {(estr(c), pol) for c, pol, e in f.facts(b)}
                    if not ((pen, True) in at and any("shared()" in s and pol is True for s, pol in at)):
                        bad_guard += 1
                if not ins or not throws:
                    bad_guard += 1
            else:
                setters = [(b, i) for b, i, nm in effects_pos if nm == "set_shared"]
                for b, i in setters:
                    pass
                # enabling: throws under anonymous() and under existing
                conds = [{(s_, p_) for s_, p_, c_ in cn.facts(b)} for b, i, x in throws]
                if not (any(any("anonymous()" in s and pol is True for s, pol in at) for at in conds) and any(any(s.startswith("internal_find_property(P0.name())") and pol is True for s, pol in at) for at in conds)):
                    bad_guard += 1
                # disabling: set_persistent(_prop,false) on the !_enable path before the flag write
                sp = [(b, i) for b, i, nm in effects_pos if nm == "set_persistent"]
                if not any((pen, False) in {(estr(c), pol) for c, pol, e in f.facts(b)} for b, i in sp):
                    bad_guard += 1
            # the storage flag is written last on every non-throwing path
            flagw = [(b, i) for b, i, nm in effects_pos if nm == name and (b, i)]
            pd = f.postdominators()
        w = fs2[0].where
        (ck.ok if bad_guard == 0 else lambda r_, w_, t: ck.violate(r_, w_, t, "C14.transition:%s:guard" % name))("C14.transition", w, "%s (%d instantiations): enabling/disabling guarded as required" % (name, len(fs2)))
        (ck.ok if bad_n == 0 else lambda r_, w_, t: ck.violate(r_, w_, t, "C14.transition:%s:N" % name))("C14.transition", w, "%s: nothing is changed on any path to a throw" % name)
    # ---- flag synchronisation
    fs2 = insts("set_persistent")
    bad = 0
    for f in fs2:
        for b, i, x in f.nodes(("call",)):
            nm = x.get("pn", "").split("::")[-1]
            if nm in ("insert", "erase") and any(isinstance(y, dict) and y.get("f") == "persistent_props_" for y in walk(f.resolve(x.get("r")))):
                # the storage flag write post-dominates
                sw = [(bb, ii) for bb, ii, y in f.nodes(("call",)) if y.get("pn", "") == PSB + "::set_persistent"]
                if not any(bb in f.postdominators().get(b, ()) for bb, ii in sw):
                    bad += 1
                for bb, ii, y in f.nodes(("call",)):
                    if y.get("pn", "") == PSB + "::set_persistent":
                        a = unwrap(f.resolve(y["a"][0]))
                        if not (isinstance(a, dict) and a.get("k") == "var" and a.get("s") == "param" and a.get("t") == "bool"):
                            bad += 1
    (ck.ok if bad == 0 else lambda r_, w_, t: ck.violate(r_, w_, t, "C14.flagsync:set_persistent"))("C14.flagsync", fs2[0].where, "set_persistent: insert/erase on the persistent set is always followed by storage->set_persistent(_enable)")
    clear_props_rule(ck, fb)
    flag_writer_rule(ck, fb)
    tag_rule(ck, fb)
    # m = m must not run the anonymise step: it would un-persist and hide every property of the mesh (shared with C13)
    from .rule_u import optional_rule
    optional_rule(ck, fb)
    ck.rule("C13.assign", "every user-provided copy assignment of the mesh hierarchy begins with the self-assignment test: ResourceManager::operator= makes all existing properties private before cloning, which on self-assignment drops every persistent property although nothing was destroyed")
    selfguard_rule(ck, fb)
    # a cloned storage has to carry the persistent/shared flags of its source: the copy path inserts it into the target's
    # persistent set without touching the flag (shared with C13)
    clone_rule(ck, fb, "C14.flagsync")
    attached_rule(ck, fb)
    # ---- tracking protocol
    ntr = 0
    writers = {}
    for f in fb.fns.values():
        if not (f.cls and f.cls.startswith("OpenVolumeMesh::detail::Tracked<") and f.has_cfg):
            continue
        ntr += 1
        for n, parents, pos in iter_sites(f):
            a = as_assign(n) if n.get("k") in ("asg", "call") else None
            if a and isinstance(unwrap(a[0]), dict) and unwrap(a[0]).get("f") == "tracker_":
                writers.setdefault(f.name, []).append(f)
        if f.name == "set_tracker":
            seq = [x.get("pn", "").split("::")[-1] for b, i, x in sorted(f.nodes(("call",)), key=lambda z: (-z[0], z[1])) if x.get("cc", "").startswith("OpenVolumeMesh::detail::Tracked<")]
            asn = [pos for n, parents, pos in iter_sites(f) if n.get("k") == "asg" and unwrap(n["l"]).get("f") == "tracker_"]
            ok = seq == ["remove", "add"] and len(asn) == 1
            (ck.ok if ok else lambda r_, w_, t: ck.violate(r_, w_, t, "C14.tracking:set_tracker"))("C14.tracking", f.where, "Tracked::set_tracker removes from the old tracker, writes tracker_, then adds to the new one")
        if f.kind == "dtor":
            ok = any(x.get("pn", "").endswith("::remove") for b, i, x in f.nodes(("call",)))
            (ck.ok if ok else lambda r_, w_, t: ck.violate(r_, w_, t, "C14.tracking:dtor"))("C14.tracking", f.where, "~Tracked removes itself from its tracker")
    allowed = {"set_tracker", "remove", "tracker_removed"}
    extra = sorted(k for k in writers if k not in allowed)
    (ck.ok if not extra else lambda r_, w_, t: ck.violate(r_, w_, t, "C14.tracking:writers"))("C14.tracking", "Tracking.hh", "tracker_ is assigned only in %s (found also: %s)" % (sorted(allowed), extra))
    if ntr < 8:
        ck.cannot_judge("C14: only %d member functions of detail::Tracked<> are instantiated (confirmed: 8): the tracking protocol rules see less than they were audited against" % ntr)
    for f in fb.fns.values():
        if f.cls and f.cls.startswith("OpenVolumeMesh::detail::Tracker<") and f.kind == "dtor" and f.has_cfg and not f.d.get("implicit"):
            ok = any(x.get("pn", "").endswith("::tracker_removed") for b, i, x in f.nodes(("call",)))
            (ck.ok if ok else lambda r_, w_, t: ck.violate(r_, w_, t, "C14.tracking:tracker_dtor"))("C14.tracking", f.where, "~Tracker tells every tracked element that the tracker is gone")
    # no mutation of a set while iterating it
    nloops = 0
    mutators_of_tracker = {"set_tracker", "add", "remove"}
    for f in fb.fns.values():
        if not f.has_cfg or "/src/OpenVolumeMesh/" not in f.file or "/verif/" in f.file:
            continue
        for hdr, body, backs in f.loops():
            t = f.term(hdr)
            if not t or t.get("range") is None:
                continue
            r = estr(f.resolve(t["range"]))
            if "storage_tracker" not in r and "persistent_props_" not in r and "tracked_" not in r:
                continue
            nloops += 1
            bad = None
            for b, i, x in f.nodes(("call",)):
                if b not in body:
                    continue
                nm = x.get("pn", "").split("::")[-1]
                if ("storage_tracker" in r or "tracked_" in r) and nm in mutators_of_tracker and "Tracked" in x.get("pn", "") and not (f.cls or "").startswith("OpenVolumeMesh::detail::Tracker<"):
                    bad = nm
                if "persistent_props_" in r and nm in ("insert", "erase", "clear") and "persistent_props_" in estr(f.resolve(x.get("r"))):
                    bad = nm
                if "persistent_props_" in r and x.get("cc") == RM and nm in ("set_persistent", "clear_props"):
                    bad = nm
            (ck.ok if not bad else lambda r_, w_, t: ck.violate(r_, w_, t, "C14.tracking:iter:%s" % f.pq))("C14.tracking", f.loc(t), "%s: range-for over %s does not mutate that set in its body" % (f.pq.split("::")[-1][:40], r[:40]))
    ck.floor("tracker_or_persistent_set_loops", nloops, 20)
    run_c14_findings(ck, fb)


def run_c14_findings(ck, fb):
    """rules whose current violations are recorded as known findings (F16, F21)"""
    ck.rule("C14.name", "a storage's name is only changed where the registry invariant (shared => named and unique) is re-established: the caller of PropertyStorageBase::set_name is guarded by !shared() or performs the uniqueness lookup")
    ck.rule("C14.downcast", "no function reachable from the constructors or the destructor of Tracked<T> down-casts `this` to T: during base-class construction/destruction the object is not a T")
    n = 0
    for f in fb.fns.values():
        if not f.has_cfg or "/src/OpenVolumeMesh/" not in f.file:
            continue
        for b, i, x in f.nodes(("call",)):
            if x.get("pn", "") == PSB + "::set_name" and b in f.reach():
                n += 1
                facts = [(estr(c), pol) for c, pol, e in f.facts(b)]
                guarded = any("shared()" in s and pol is False for s, pol in facts) or any(y.get("pn", "").endswith("::internal_find_property") for bb, ii, y in f.nodes(("call",)))
                key = "C14.name:%s" % f.pq
                (ck.ok if guarded else lambda r_, w_, t: ck.violate(r_, w_, t, key))("C14.name", f.loc(x), "%s renames a storage only when it is not shared or after a uniqueness lookup" % f.pq.split("OpenVolumeMesh::")[-1][:60])
    ck.floor("set_name_call_sites", n, 1)
    seen = set()
    for f in fb.fns.values():
        if not (f.cls and f.cls.startswith("OpenVolumeMesh::detail::Tracked<") and f.has_cfg and f.kind in ("ctor", "dtor")):
            continue
        st = [f]
        vis = set()
        while st:
            g = st.pop()
            if g.id in vis:
                continue
            vis.add(g.id)
            for b, i, x in g.nodes(("cast",)):
                if x.get("clk") == "BaseToDerived" and isinstance(unwrap(g.resolve(x.get("x"))), dict) and unwrap(g.resolve(x["x"])).get("k") == "this":
                    key = "C14.downcast:%s" % g.pq
                    if key not in seen:
                        seen.add(key)
                        ck.violate("C14.downcast", g.loc(g.line), "%s casts `this` to %s and is reached from %s of Tracked" % (g.pq.split("OpenVolumeMesh::")[-1], x.get("t", "").replace("OpenVolumeMesh::", ""), "a constructor" if f.kind == "ctor" else "the destructor"), key)
            for b, i, x, tgt in fb.callees(g, virtual_fanout=False):
                if tgt is not None and tgt.cls and tgt.cls.startswith("OpenVolumeMesh::detail::Tracked<") and tgt.has_cfg:
                    st.append(tgt)
    if not seen:
        ck.ok("C14.downcast", "Tracking.hh", "no down-cast of this reachable from Tracked's constructors/destructor")
