"""C20 - concurrent read-only use is race-free: effect analysis over all const entry points.

Entry set E: const members of TopologyKernel and its subclasses / GeometryKernel instantiations,
constructors and all members of every iterator/circulator class, const members of the property
handle classes.  Over the transitive repository callees of E (resolved call graph, virtual fan-out):
  (1) no write to / non-const use of a `mutable` member
  (2) no access to a variable of static storage duration that is not const (incl. function-local statics)
  (3) no cast that removes const
  (4) no write through the mesh pointer/reference held by an iterator, no non-const member call on
      `this` of a const method's class reached via a stored pointer (the hole shared_ptr<T> const leaves)
Property creation/destruction (create_*/request_*/storage_tracker users) is excluded by the statement."""
from collections import deque

from .extract import AnalysisBroken
from .facts import as_assign, estr, unwrap, walk

TK = "OpenVolumeMesh::TopologyKernel"
RM = "OpenVolumeMesh::ResourceManager"
EXCLUDED_NAMES = {"create_private_property", "internal_create_property", "storage_tracker", "request_property", "create_property", "create_shared_property", "create_persistent_property"}


def creating_api(name):
    """the property-creating API (excluded from the read-only operations by the statement)"""
    import re
    return name in EXCLUDED_NAMES or bool(re.match(r"(create|request)_\w*propert", name))


def is_iter_class(fb, cls):
    return any(b.startswith("OpenVolumeMesh::BaseIterator<") for b in fb.bases(cls)) or cls.startswith("OpenVolumeMesh::BaseIterator<")


def entries(fb):
    out = []
    for f in fb.fns.values():
        if not f.has_cfg or not ("/src/OpenVolumeMesh/" in f.file or "/verif/fixtures/canary_c20" in f.file) or not f.cls:
            continue
        if creating_api(f.name):
            continue
        cls = f.cls
        if fb.derived_from(cls, TK) or cls == RM:
            if f.kind == "method" and f.d.get("const") and f.d.get("access") == "public":
                out.append(f)
        elif is_iter_class(fb, cls):
            out.append(f)
        elif cls.startswith("OpenVolumeMesh::PropertyStoragePtr<") or cls.startswith("OpenVolumeMesh::PropertyPtr<"):
            if f.kind == "method" and f.d.get("const"):
                out.append(f)
        elif "/verif/fixtures/canary_c20" in f.file:
            out.append(f)
    return out


def run(ck, fb, fbd):
    ck.rule("C20.mutable", "no function reachable from a const entry point reads or writes a `mutable` data member")
    ck.rule("C20.static", "no function reachable from a const entry point touches a non-const variable of static storage duration (namespace-scope, static member or function-local static)")
    ck.rule("C20.constcast", "no function reachable from a const entry point contains a cast that removes const")
    ck.rule("C20.write", "no function reachable from a const entry point of the mesh writes a data member of the mesh classes through `this` or through a stored mesh pointer; iterators hold the mesh as pointer-to-const")
    ck.rule("C20.create", "no function reachable from a read-only entry point creates or requests a property: creation registers the storage in the mesh's (mutable) tracker, which is a write to shared state - the statement excludes property creation from the read-only operations, so a traversal or query must not do it behind the caller's back")
    creating = []
    E = entries(fb)
    pred = {f.id: None for f in E}
    dq = deque(f.id for f in E)
    while dq:
        fid = dq.popleft()
        f = fb.fns[fid]
        for b, i, n, tgt in fb.callees(f):
            if tgt is None or not tgt.has_cfg or b not in f.reach():
                continue
            if not ("/src/OpenVolumeMesh/" in tgt.file or "/verif/fixtures/" in tgt.file):
                continue
            if creating_api(tgt.name):
                if tgt.name != "storage_tracker":
                    creating.append((f, n, tgt, fid))
                continue
            if tgt.id not in pred:
                pred[tgt.id] = (fid, f.loc(n))
                dq.append(tgt.id)
        for b, i, n in f.nodes(("lambda",)):
            u = n.get("u")
            for g in fb.fns.values():
                if g.kind == "lambda" and (g.d.get("lambda_base") == u or g.id == u) and g.id not in pred and g.has_cfg:
                    pred[g.id] = (fid, f.loc(n))
                    dq.append(g.id)

    def chain(fid):
        out = []
        while fid is not None and pred.get(fid) is not None:
            p, loc = pred[fid]
            out.append("%s: %s calls %s" % (loc, fb.fns[p].pq.split("::")[-1], fb.fns[fid].pq.split("::")[-1]))
            fid = p
        return out

    seen_c = set()
    for f, n, tgt, fid in creating:
        key = "C20.create:%s:%s" % (f.pq, tgt.name)
        if key in seen_c:
            continue
        seen_c.add(key)
        if "/verif/fixtures/" in f.file:
            continue
        ck.violate("C20.create", f.loc(n), "%s (reachable from a read-only entry point) calls %s, which registers a new property storage in the mesh" % (f.pq.split("OpenVolumeMesh::")[-1][:70], tgt.name), key, detail={"chain": chain(fid)})
    # the rule is only alive while the creating API is recognised at all
    n_api = len({g.where for g in fb.fns.values() if g.has_cfg and g.cls == RM and creating_api(g.name) and g.name != "storage_tracker"})
    ck.floor("property_creating_api_functions", n_api, 10)
    ck.analysed["property_creating_calls_reached"] = len(seen_c)
    if not seen_c:
        ck.ok("C20.create", "const entry points", "no read-only entry point reaches a property-creating call (%d functions searched)" % len(pred))
    mesh_classes = [c for c in fb.records if c == TK or c == RM or fb.derived_from(c, TK)]
    # the property storages belong to the mesh state as well: a const read of a property must not write the storage
    # object (e.g. un-sharing a copy-on-write buffer) - the handle classes reach it through a shared_ptr, which does not
    # propagate const, so the compiler does not object
    mesh_classes += [c for c in fb.records if c.startswith("OpenVolumeMesh::PropertyStorageT<") or c == "OpenVolumeMesh::PropertyStorageBase"]
    n_mut = n_static = n_cast = n_write = 0
    canary = {"mutable": False, "static": False, "constcast": False}
    for fid in pred:
        f = fb.fns[fid]
        fixture = "/verif/fixtures/" in f.file
        for b, i, n in f.nodes(("mem", "var", "cast", "asg", "un", "call", "decl")):
            if b not in f.reach():
                continue
            k = n.get("k")
            if k == "mem" and n.get("mut"):
                n_mut += 1
                if fixture:
                    canary["mutable"] = True
                    continue
                ck.violate("C20.mutable", f.loc(n if n.get("ln") else f.line), "%s touches mutable member %s::%s" % (f.pq.split("OpenVolumeMesh::")[-1][:60], n.get("o", "").split("::")[-1], n["f"]), "C20.mutable:%s:%s" % (f.pq, n["f"]), detail={"chain": chain(fid)})
            elif k == "var" and n.get("s") in ("global", "static-local", "static-member") and not n.get("const"):
                t = n.get("t", "")
                if t.startswith("const ") or " const" in t and not t.endswith("&"):
                    continue
                if n["id"].startswith("std::") or n["id"] in ("std::cerr", "std::cout"):
                    # iostream objects: synchronised by the standard library; only used in diagnostics
                    continue
                n_static += 1
                if fixture:
                    canary["static"] = True
                    continue
                ck.violate("C20.static", f.loc(f.line), "%s uses the non-const static-storage variable %s (%s)" % (f.pq.split("OpenVolumeMesh::")[-1][:60], n["id"], n["s"]), "C20.static:%s:%s" % (f.pq, n["n"]), detail={"chain": chain(fid)})
            elif k == "decl":
                for v in n["vars"]:
                    if v.get("static") and not v["t"].startswith("const "):
                        n_static += 1
                        if fixture:
                            canary["static"] = True
                            continue
                        ck.violate("C20.static", f.loc(n), "%s declares the non-const function-local static %s" % (f.pq.split("OpenVolumeMesh::")[-1][:60], v["n"]), "C20.static:%s:%s" % (f.pq, v["n"]), detail={"chain": chain(fid)})
            elif k == "cast" and n.get("rc"):
                n_cast += 1
                if fixture:
                    canary["constcast"] = True
                    continue
                ck.violate("C20.constcast", f.loc(f.line), "%s removes const with a %s cast to %s" % (f.pq.split("OpenVolumeMesh::")[-1][:60], n.get("ck"), n.get("t")), "C20.constcast:%s" % f.pq, detail={"chain": chain(fid)})
            elif k in ("asg", "un") or (k == "call" and as_assign(n)):
                if k == "call":
                    tgt = as_assign(n)[0]
                else:
                    tgt = n.get("l") if k == "asg" else (n.get("x") if n.get("op") in ("pre++", "post++", "pre--", "post--") else None)
                if tgt is None:
                    continue
                t = unwrap(f.resolve(tgt))
                while isinstance(t, dict) and t.get("k") == "idx":
                    t = unwrap(t["b"])
                if isinstance(t, dict) and t.get("k") == "mem" and t.get("o") in mesh_classes:
                    base = unwrap(t.get("b"))
                    # constructors/assignment of the object itself are not reachable from E; any write here is a finding
                    n_write += 1
                    if f.kind in ("ctor", "dtor") and f.cls in mesh_classes:
                        continue
                    ck.violate("C20.write", f.loc(n), "%s writes mesh member %s" % (f.pq.split("OpenVolumeMesh::")[-1][:60], t["f"]), "C20.write:%s:%s" % (f.pq, t["f"]), detail={"chain": chain(fid)})
    # iterators hold the mesh as pointer to const
    n_it = 0
    for name, r in fb.records.items():
        if name.startswith("OpenVolumeMesh::BaseIterator<"):
            for fl in r["fields"]:
                if "TopologyKernel" in fl["t"]:
                    n_it += 1
                    ok = fl["t"].startswith("const ")
                    (ck.ok if ok else lambda r_, w, t: ck.violate(r_, w, t, "C20.write:iter-mesh-ptr"))("C20.write", "%s:%s" % (r["file"], fl["line"]), "%s holds the mesh as %s" % (name.split("OpenVolumeMesh::")[-1][:40], fl["t"]))
    # the only mutable member of the hierarchy
    muts = [(name, fl["n"]) for name, r in fb.records.items() if "/src/OpenVolumeMesh/" in r["file"] for fl in r["fields"] if fl.get("mutable")]
    ck.analysed.update({"const_entry_points": len(E), "functions_reachable": len(pred), "mutable_members_in_repository": sorted("%s::%s" % (a.split("::")[-1][:30], b) for a, b in set(muts)),
                        "iterator_base_instantiations": n_it})
    for what, n in (("mutable", n_mut), ("static", n_static), ("constcast", n_cast), ("write", n_write)):
        if not any(o["rule"] == "C20." + what and o["status"] == "violated" for o in ck.oblig):
            ck.ok("C20." + what, "call graph of %d const entry points" % len(E), "%d reachable repository functions examined: no %s effect" % (len(pred), what))
    ck.canary("canary_c20 mutable", canary["mutable"])
    ck.canary("canary_c20 static", canary["static"])
    ck.canary("canary_c20 const_cast", canary["constcast"])
    ck.floor("const_entry_points", len(E), 330)
    ck.floor("functions_reachable", len(pred), 600)
