"""C06 - native formats round-trip: table agreement between writer, reader and the published format description"""
import os
import re

from .extract import REPO, AnalysisBroken
from .facts import as_assign, estr, need_names, unwrap, walk
from .readers import BFR, BFW, FM, cmp_parts, strip_casts, facts_with_lambda

NS = "OpenVolumeMesh::IO::detail::"
ENC = NS + "Encoder"
DEC = NS + "Decoder"
STRUCTS = ("FileHeader", "ChunkHeader", "ArraySpan", "PropChunkHeader", "VertexChunkHeader", "TopoChunkHeader", "PropertyInfo")
WIDTH = {"u8": 1, "u16": 2, "u32": 4, "u64": 8, "flt": 4, "dbl": 8}


def src_sorted(items):
    return sorted(items, key=lambda z: (z[2].get("ln") or 0, -z[0], z[1]))


def last_field(e):
    e = unwrap(strip_casts(e))
    while isinstance(e, dict) and e.get("k") in ("cast",):
        e = unwrap(e["x"])
    if isinstance(e, dict) and e.get("k") == "mem":
        return e["f"]
    if isinstance(e, dict) and e.get("k") == "var":
        return e["n"]
    return estr(e)


def const_eval(fb, e, depth=0):
    """mini constant folder for the ovmb_size<X> initialisers (sizeof, literals, +, *, references to other variables)"""
    e = unwrap(strip_casts(e))
    if not isinstance(e, dict) or depth > 10:
        return None
    k = e.get("k")
    if k == "lit" and isinstance(e.get("v"), int):
        return e["v"]
    if k == "sizeof":
        return e.get("v")
    if k == "bin" and e["op"] in ("+", "*"):
        l, r = const_eval(fb, e["l"], depth + 1), const_eval(fb, e["r"], depth + 1)
        if l is None or r is None:
            return None
        return l + r if e["op"] == "+" else l * r
    if k == "un" and e["op"] == "+":
        return const_eval(fb, e["x"], depth + 1)
    if k == "var":
        v = fb.vars.get(e["id"])
        if v is None:
            return None
        if "value" in v:
            return v["value"]
        if v.get("init") is not None:
            return const_eval(fb, v["init"], depth + 1)
    return None


def size_of(fb, name):
    v = fb.vars.get(NS + "ovmb_size<" + NS + name + ">")
    if v is None:
        return None
    if "value" in v:
        return v["value"]
    return const_eval(fb, v.get("init"))


def codec_fn(fb, which, struct):
    want = (ENC if which == "write" else DEC)
    r = [f for f in fb.fns.values() if f.has_cfg and f.pq == NS + which and len(f.d["params"]) == 2 and want in f.d["params"][0]["t"] and (NS + struct) in f.d["params"][1]["t"]]
    if len(r) != 1:
        raise AnalysisBroken("C06: %s(%s&, %s) not unique (%d)" % (which, want.split("::")[-1], struct, len(r)))
    return r[0]


def op_sequence(fb, f, which):
    """[(kind, width-or-type, field)] in source order"""
    seq = []
    calls = [(b, i, x) for b, i, x in f.nodes(("call",)) if b in f.reach()]
    for b, i, x in src_sorted(calls):
        pn = x.get("pn", "")
        nm = pn.split("::")[-1]
        a = f.resolve(x.get("a", []))
        if pn.startswith(ENC + "::") or pn.startswith(DEC + "::"):
            if nm in WIDTH:
                if which == "write":
                    seq.append(("int", WIDTH[nm], last_field(a[0])))
                else:
                    seq.append(("int", WIDTH[nm], None))  # field filled from the assignment below
            elif nm == "reserved":
                seq.append(("reserved", int(x.get("ta", ["0"])[0]), None))
            elif nm in ("writeVec", "readVec"):
                lt = x.get("ta", ["?"])[0]
                seq.append(("vec", {"unsigned int": 4, "unsigned long": 8, "unsigned short": 2, "unsigned char": 1}.get(lt, lt), last_field(a[0])))
            elif nm in ("write", "read") and a:
                t = unwrap(strip_casts(a[0]))
                ty = t.get("t", "") if isinstance(t, dict) else ""
                if "std::array<unsigned char, 8>" in ty:
                    seq.append(("magic", 8, None))
                else:
                    seq.append(("raw", ty, last_field(a[0])))
            elif nm in ("need", "padding"):
                if nm == "padding":
                    seq.append(("padding", None, None))
        elif pn in (NS + "write", NS + "read", NS + "write_enum", NS + "read_enum") and len(a) == 2:
            ty = (unwrap(strip_casts(a[1])).get("t") or "").replace("const ", "").replace("&", "").strip()
            short = ty.replace(NS, "")
            kind = "enum" if short in ("IntEncoding", "PropertyEntity", "TopoEntity", "TopoType", "VertexEncoding", "ChunkType", "ChunkFlags") else "struct"
            seq.append((kind, short, last_field(a[1])))
    if which == "read":
        # attach the assigned fields to the int reads: `x.f = decoder.uN()`
        ints = [k for k, s in enumerate(seq) if s[0] == "int"]
        asg = []
        for b, i, x in src_sorted([(b, i, x) for b, i, x in f.tops() if as_assign(x)]):
            l, r, op = as_assign(x)
            if any(isinstance(y, dict) and y.get("k") == "call" and y.get("pn", "").startswith(DEC + "::") and y.get("pn", "").split("::")[-1] in WIDTH for y in walk(r)):
                asg.append(last_field(l))
        if len(asg) == len(ints):
            for k, fld in zip(ints, asg):
                seq[k] = ("int", seq[k][1], fld)
    return seq


def norm_seq(seq):
    """comparable form: ChunkFlags may be written as a raw u8"""
    out = []
    for k, w, fld in seq:
        if k == "enum" and w == "ChunkFlags":
            out.append(("int", 1, fld))
        else:
            out.append((k, w, fld))
    return out


def seq_width(fb, seq):
    tot = 0
    for k, w, fld in seq:
        if k in ("int", "reserved", "magic"):
            tot += w
        elif k in ("enum", "struct"):
            s = size_of(fb, w)
            if s is None:
                return None
            tot += s
        elif k == "vec":
            return None  # variable length
    return tot


def quoted_name_rule(ck, fb):
    """the ASCII reader's view of a quoted property name: from the first to the last quote mark"""
    from .canon import Canon
    ck.rule("C06.quoted", "FileManager::extractQuotedText takes the text between the FIRST quote mark (find / find_first_of) and the LAST one (rfind / find_last_of): the writer puts one quote mark on either side of the unescaped name, so a search that skips quote marks from the end (find_last_not_of) eats the name's own trailing quote marks (F45)")
    fs = [f for f in fb.fns.values() if f.has_cfg and f.pq.endswith("FileManager::extractQuotedText")]
    if len(fs) != 1:
        raise AnalysisBroken("anchor vanished: FileManager::extractQuotedText (%d)" % len(fs))
    f = fs[0]
    names = [x.get("pn", "").split("::")[-1] for b, i, x in f.nodes(("call",)) if b in f.reach()]
    first = [n for n in names if n in ("find", "find_first_of")]
    last = [n for n in names if n in ("rfind", "find_last_of")]
    bad = [n for n in names if n in ("find_last_not_of", "find_first_not_of")]
    if bad:
        ck.violate("C06.quoted", f.where, "extractQuotedText locates the closing quote mark with rfind/find_last_of (found %s, which skips every trailing quote mark of the name)" % bad, "C06.quoted:not_of")
    elif first and last:
        ck.ok("C06.quoted", f.where, "extractQuotedText cuts between %s and %s" % (first[0], last[0]))
    else:
        ck.cannot_judge("C06.quoted %s: the quote marks are located in another way (%s) - not judged" % (f.where, sorted(set(names))[:6]))


def write_buffer_rule(ck, fb):
    """WriteBuffer hands out data_.data() + pos_, never &data_[pos_]"""
    from .canon import Canon
    ck.rule("M.index", "WriteBuffer::write and bytes_to_write form their destination by pointer arithmetic on data_.data() - valid up to one past the end - and never as &data_[pos_]: after need(0) on a full buffer pos_ equals data_.size() and operator[] is called out of range (undefined behaviour, abort with _GLIBCXX_ASSERTIONS; reached for every empty string, F46)")
    n = 0
    for f in fb.fns.values():
        if not (f.has_cfg and f.cls and f.cls.endswith("IO::detail::WriteBuffer") and f.name in ("write", "bytes_to_write")) or "uint8_t" not in (f.d.get("rt", "") + " ".join(p_["t"] for p_ in f.d.get("params", []))) and f.name == "write" and False:
            continue
        cn = Canon(f)
        txt = " ".join(cn.s(x) for b, i, x in f.tops() if b in f.reach())
        addr = [x for b, i, x in f.nodes(("un",)) if x.get("op") == "&" and b in f.reach() and "data_[" in cn.s(x)]
        uses_data = "data_.data()" in txt
        if not uses_data and not addr:
            continue  # overloads that forward to the pointer version
        n += 1
        (ck.ok if not addr else lambda r_, w_, t_: ck.violate(r_, w_, t_, "M.index:%s" % f.name))("M.index", f.where, "WriteBuffer::%s computes its destination as data_.data() + pos_ (%s)" % (f.name, "pointer arithmetic" if not addr else "found " + cn.s(addr[0])[:40]))
    ck.floor("write_buffer_destinations", n, 2)


def ascii_text_rules(ck, fb):
    """the text form of a value must survive white-space separated, line-oriented reading"""
    ck.rule("C06.text", "ASCII: for every value type the format registers, the writer's text form is re-read by the reader's extraction.  (a) character types: the generic helper writes the raw character with operator<<(char) and reads with operator>>(char&), which skips white space - a value of 9, 10, 13 or 32 is lost and shifts everything after it; (b) floating types: operator<< prints inf/nan, which operator>>(double&) does not parse; (c) property names are written verbatim between quote marks into a line-oriented format; (d) isTetrahedralMesh/isHexahedralMesh decide from the cell valences alone and never read the Faces section")
    helpers = [f for f in fb.fns.values() if f.name in ("deserialize_helper", "serialize_helper") and f.has_cfg and f.d.get("inst") and "/FileManager/" in f.file]
    ck.floor("ascii_helper_instantiations", len(helpers), 20)

    def elem_t(f):
        return f.d["params"][1]["t"].replace("const ", "").replace(" &", "").strip()
    des = {elem_t(f): f for f in helpers if f.name == "deserialize_helper" and len(f.d["params"]) >= 2}
    ser = {elem_t(f): f for f in helpers if f.name == "serialize_helper" and len(f.d["params"]) >= 2}
    for t, tag in (("char", "char"), ("unsigned char", "uchar")):  # the two character types in the typeName list
        if t in des and t in ser:
            raw_w = any(x.get("pn", "") == "std::operator<<" for b, i, x in ser[t].nodes(("call",)))
            fmt_r = any(x.get("pn", "") == "std::operator>>" for b, i, x in des[t].nodes(("call",)))
            (ck.ok if not (raw_w and fmt_r) else lambda r_, w_, t_: ck.violate(r_, w_, t_, "C06.text:%s" % tag))("C06.text", des[t].where, "ASCII %s values: written and re-read symmetrically (raw character out: %s, white-space skipping extraction in: %s)" % (t, raw_w, fmt_r))
    nf = [t for t in ("float", "double", "long double") if t in des and any(x.get("pn", "").endswith("basic_istream::operator>>") for b, i, x in des[t].nodes(("call",))) and t in ser and any(x.get("pn", "").endswith("basic_ostream::operator<<") for b, i, x in ser[t].nodes(("call",)))]
    dedicated = [f for f in fb.fns.values() if f.name == "deserialize" and f.has_cfg and "/FileManager/" in f.file and len(f.d["params"]) == 2 and f.d["params"][1]["t"] in ("double &", "float &")  and not f.d.get("inst")]
    (ck.ok if (not nf or dedicated) else lambda r_, w_, t_: ck.violate(r_, w_, t_, "C06.text:nonfinite"))("C06.text", des[nf[0]].where if nf else "FileManager", "ASCII floating values: operator<< / operator>> are inverse on finite values only (types through the generic helper: %s; dedicated reader: %s)" % (nf, bool(dedicated)))
    # (c) names
    wr = [f for f in fb.fns.values() if f.has_cfg and f.cls and f.cls.endswith("IO::FileManager") and f.name in ("writeProps",) ]
    esc = False
    namew = 0
    for f in wr:
        for b, i, x in f.nodes(("call",)):
            if x.get("pn", "").split("::")[-1] in ("escape", "quote", "quoted"):
                esc = True
            if x.get("pn", "").split("::")[-1] == "name" and b in f.reach():
                namew += 1
    if namew:
        (ck.ok if esc else lambda r_, w_, t_: ck.violate(r_, w_, t_, "C06.text:name_linebreak"))("C06.text", wr[0].where, "ASCII property names are escaped before they are written into the line-oriented header (%d name() uses in writeProps, escaping call: %s)" % (namew, esc))
    # (d) detection
    for nm in ("isTetrahedralMesh", "isHexahedralMesh"):
        fs = [f for f in fb.fns.values() if f.name == nm and f.has_cfg and "/FileManager/" in f.file]
        if not fs:
            raise AnalysisBroken("anchor vanished: FileManager::" + nm)
        lits = [x.get("v") for b, i, x in fs[0].nodes(("lit",)) if isinstance(x.get("v"), str)]
        ok = any(l.lower().startswith("faces") for l in lits)
        (ck.ok if ok else lambda r_, w_, t_: ck.violate(r_, w_, t_, "C06.text:detect:%s" % nm))("C06.text", fs[0].where, "%s also reads the Faces section (section keywords it looks for: %s)" % (nm, [l for l in lits if l[:1].isupper() and " " not in l][:3]))


def run(ck, fb, fbd):
    codec_symmetry(ck, fb)
    ksy_agreement(ck, fb)
    byte_order(ck, fb)
    width_selection(ck, fb)
    reader_siblings(ck, fb)
    ascii_tables(ck, fb)
    registry(ck, fb)
    pending_deletions(ck, fb)
    topology_detection(ck, fb)
    from . import readers
    buffer_rule(ck, fb)
    quoted_name_rule(ck, fb)
    ascii_text_rules(ck, fb)
    readers.string_assign_rule(ck, fb)
    write_buffer_rule(ck, fb)
    readers.ovmb_encoding_rules(ck, fb)
    bool_codec_rule(ck, fb)
    empty_span_rule(ck, fb)
    readers.edge_dup_rule(ck, fb)
    readers.optional_chunk_rule(ck, fb)


# ------------------------------------------------------------------------------------------ (1)
def codec_symmetry(ck, fb):
    ck.rule("C06.codec", "for each of the seven OVMB structures the writer and the reader perform the same sequence of primitive operations (kind, width, field); reserved<N>/padding written as zeros are validated on read; ovmb_size<X> equals the summed widths")
    for st in STRUCTS:
        w, r = codec_fn(fb, "write", st), codec_fn(fb, "read", st)
        sw, sr = norm_seq(op_sequence(fb, w, "write")), norm_seq(op_sequence(fb, r, "read"))
        ok = sw == sr and len(sw) >= 2
        (ck.ok if ok else lambda r_, w_, t: ck.violate(r_, w_, t, "C06.codec:%s:sequence" % st))("C06.codec", w.where, "%s: write sequence %s == read sequence %s" % (st, sw, sr if sw != sr else "(same)"))
        if st != "PropertyInfo":
            tot = seq_width(fb, sw)
            decl = size_of(fb, st)
            ok = tot is not None and decl is not None and tot == decl
            (ck.ok if ok else lambda r_, w_, t: ck.violate(r_, w_, t, "C06.codec:%s:size" % st))("C06.codec", w.where, "%s: ovmb_size = %s, summed field widths = %s" % (st, decl, tot))
            # the reader's need() covers the whole structure
            needs = [estr(r.resolve(x["a"])) for b, i, x in r.nodes(("call",)) if x.get("pn", "") == DEC + "::need"]
            ok = any("ovmb_size" in n for n in needs)
            (ck.ok if ok else lambda r_, w_, t: ck.violate(r_, w_, t, "C06.codec:%s:need" % st))("C06.codec", r.where, "read(%s) budgets ovmb_size<%s> bytes up front (%s)" % (st, st, needs))
    # enum validity = exactly the enumerators
    for en in ("IntEncoding", "PropertyEntity", "TopoEntity", "TopoType", "VertexEncoding", "ChunkFlags"):
        e = fb.enums.get(NS + en)
        if not e:
            raise AnalysisBroken("enum %s not found" % en)
        vals = sorted(x["v"] for x in e["enumerators"])
        fs = [f for f in fb.fns.values() if f.has_cfg and f.pq == NS + "is_valid" and (NS + en) in f.d["params"][0]["t"]]
        if not fs:
            raise AnalysisBroken("is_valid(%s) not found" % en)
        f = fs[0]
        ret = [x for b, i, x in f.tops() if x.get("k") == "ret"]
        s = estr(ret[0]) if ret else ""
        accepted = None
        eqs = re.findall(r"== ([A-Za-z0-9_:]+)\)", s)
        if eqs and "<=" not in s and ">=" not in s:
            names = {x["n"]: x["v"] for x in e["enumerators"]}
            accepted = sorted(names[q.split("::")[-1]] for q in eqs if q.split("::")[-1] in names)
        else:
            lo = re.search(r">= (\d+)", s)
            hi = re.search(r"<= (\d+)", s)
            if hi:
                accepted = list(range(int(lo.group(1)) if lo else 0, int(hi.group(1)) + 1))
        if accepted is None:
            raise AnalysisBroken("C06: is_valid(%s): shape not recognised: %s" % (en, s))
        if en == "ChunkFlags":
            ok = set(vals) <= set(accepted) and max(accepted) <= 1  # bit mask: 0 (optional chunk) and Mandatory
        else:
            ok = accepted == vals
        (ck.ok if ok else lambda r_, w_, t: ck.violate(r_, w_, t, "C06.codec:is_valid:%s" % en))("C06.codec", f.where, "is_valid(%s) accepts %s; enumerators are %s" % (en, accepted, vals))
    ck.note("ChunkType::is_valid accepts every value by design (unknown optional chunks are skippable); exempt")


# ------------------------------------------------------------------------------------------ (2)
KSY_TYPES = {"file_header": "FileHeader", "chunk": "ChunkHeader", "array_span": "ArraySpan", "vert_chunk": "VertexChunkHeader", "topo_chunk": "TopoChunkHeader", "propdir_entry": "PropertyInfo", "prop_chunk": "PropChunkHeader"}
KSY_STOP = {"chunk": "body", "vert_chunk": "coordinates", "topo_chunk": "data", "prop_chunk": "data"}
KSY_W = {"u1": 1, "u2": 2, "u4": 4, "u8": 8, "f4": 4, "f8": 8}


def ksy_agreement(ck, fb):
    ck.rule("C06.ksy", "the field sequences of the writer equal the `seq` of the corresponding type in extra/ovmb-kaitai/ovmb.ksy (widths, reserved/magic contents, nested types, enum association) and the ksy enum tables equal the C++ enumerator values")
    path = os.path.join(REPO, "extra", "ovmb-kaitai", "ovmb.ksy")
    if not os.path.exists(path):
        raise AnalysisBroken("published format description missing: " + path)
    try:
        import yaml
        doc = yaml.safe_load(open(path))
    except Exception as ex:
        raise AnalysisBroken("cannot parse ovmb.ksy: %s" % ex)
    if doc.get("meta", {}).get("endian") != "le":
        ck.violate("C06.ksy", path, "format description is not little endian", "C06.ksy:endian")
    for kt, st in KSY_TYPES.items():
        t = doc["types"].get(kt)
        if not t:
            ck.violate("C06.ksy", path, "type %s missing in the format description" % kt, "C06.ksy:%s:missing" % kt)
            continue
        kseq = []
        for fld in t["seq"]:
            if fld["id"] == KSY_STOP.get(kt):
                break
            if "contents" in fld:
                c = fld["contents"]
                kseq.append(("magic" if len(c) == 8 else "reserved", len(c), None, c))
            elif fld.get("type") in KSY_W:
                kseq.append(("enum" if "enum" in fld else "int", KSY_W[fld["type"]], fld.get("enum"), None))
            elif fld.get("type") == "str" and "size" in fld:
                kseq.append(("enum", fld["size"], "chunk_type", None))
            elif fld.get("type") in ("string4", "bytes4"):
                kseq.append(("vec", 4, None, None))
            elif fld.get("type") in doc["types"]:
                kseq.append(("struct", fld["type"], None, None))
            else:
                raise AnalysisBroken("C06: ksy field %s.%s not understood" % (kt, fld["id"]))
        w = codec_fn(fb, "write", st)
        cseq = op_sequence(fb, w, "write")
        comp_c, comp_k = [], []
        for k, wd, fld in cseq:
            if k == "enum":
                comp_c.append(("enum", size_of(fb, wd), re.sub(r"(?<!^)(?=[A-Z])", "_", wd).lower()))
            elif k == "struct":
                comp_c.append(("struct", {v: k2 for k2, v in KSY_TYPES.items()}.get(wd, wd), None))
            elif k == "int":
                comp_c.append(("int", wd, None))
            else:
                comp_c.append((k, wd, None))
        for k, wd, en, c in kseq:
            comp_k.append((k, wd, en if k == "enum" else None))
        # ChunkFlags is a plain u1 in the ksy; chunk type is a 4-character string there
        def relax(seq):
            return [("int", w, None) if (k == "enum" and (e in ("chunk_flags", None))) else ("enum", w, None) if (k == "enum" and e == "chunk_type") else (k, w, e) for k, w, e in seq]
        ok = relax(comp_c) == relax(comp_k)
        (ck.ok if ok else lambda r_, w_, t: ck.violate(r_, w_, t, "C06.ksy:%s" % kt))("C06.ksy", w.where, "%s: writer %s == ksy %s %s" % (st, relax(comp_c), kt, relax(comp_k) if not ok else "(same)"))
        for k, wd, en, c in kseq:
            if k == "magic":
                mv = fb.vars.get(NS + "ovmb_magic")
                got = [unwrap(y).get("v") for y in (unwrap(mv.get("init")) or {}).get("a", [])] if mv and mv.get("init") else None
                if got is not None and len(got) != 8:
                    got = [unwrap(y).get("v") for y in walk(mv["init"]) if isinstance(y, dict) and y.get("k") == "lit"][:8]
                want = [ord(x) if isinstance(x, str) else x for x in c]
                ok = got == want
                (ck.ok if ok else lambda r_, w_, t: ck.violate(r_, w_, t, "C06.ksy:magic"))("C06.ksy", path, "magic bytes %s == ovmb_magic %s" % (want, got))
            if k == "reserved":
                ok = all(x == 0 for x in c)
                (ck.ok if ok else lambda r_, w_, t: ck.violate(r_, w_, t, "C06.ksy:reserved"))("C06.ksy", path, "%s: reserved bytes are zeros" % kt)
    cxx = {"int_encoding": "IntEncoding", "vertex_encoding": "VertexEncoding", "property_entity": "PropertyEntity", "topo_type": "TopoType", "topo_entity": "TopoEntity"}
    for kn, cn in cxx.items():
        ke = doc.get("enums", {}).get(kn)
        ce = fb.enums.get(NS + cn)
        if ke is None or ce is None:
            raise AnalysisBroken("C06: enum %s/%s missing" % (kn, cn))
        a = {int(k): str(v).lower() for k, v in ke.items()}
        b = {x["v"]: x["n"].lower() for x in ce["enumerators"]}
        (ck.ok if a == b else lambda r_, w_, t: ck.violate(r_, w_, t, "C06.ksy:enum:%s" % kn))("C06.ksy", path, "enum %s %s == %s %s" % (kn, a, cn, b if a != b else "(same)"))
    # chunk type strings
    ce = fb.enums.get(NS + "ChunkType")
    cases = doc["types"]["chunk"]["seq"][6]["type"]["cases"] if len(doc["types"]["chunk"]["seq"]) > 6 else {}
    fourcc = {x["n"]: x["v"].to_bytes(4, "little").decode("ascii", "replace") for x in ce["enumerators"] if x["v"]}
    kc = {k.strip('"') for k in cases}
    ok = kc <= set(fourcc.values()) and len(kc) >= 4
    (ck.ok if ok else lambda r_, w_, t: ck.violate(r_, w_, t, "C06.ksy:chunktypes"))("C06.ksy", path, "chunk type strings of the ksy %s are the FOURCC values of ChunkType %s" % (sorted(kc), fourcc))


# ------------------------------------------------------------------------------------------ (3)
def byte_order(ck, fb):
    ck.rule("C06.endian", "for every integer width the (byte index, shift) pairs used by Encoder::uN and Decoder::uN are the same set {(k, 8k)} (little endian on both sides)")

    def pairs(f, side):
        out = set()
        # unrolled: out[k] = (val >> s) & 0xff  /  cur_[k] << s ; looped: out[i] = val >> (8*i)
        txt = [estr(x).replace("this.", "") for b, i, x in f.tops()]
        for t in txt:
            for m in re.finditer(r"out\[(\d+)\] = \(\(?val(?: >> (\d+))?\)?", t):
                out.add((int(m.group(1)), int(m.group(2) or 0)))
            if re.search(r"out\[i\] = \(\(val >> \(8 \* i\)\)", t):
                loops = f.loops()
                for hdr, body, backs in loops:
                    c = estr(f.resolve(f.term(hdr)["cond"])) if f.term(hdr) and f.term(hdr).get("cond") else ""
                    m = re.search(r"i < (\d+)", c)
                    if m:
                        out |= {(k, 8 * k) for k in range(int(m.group(1)))}
            if side == "dec":
                for m in re.finditer(r"cur_\[(\d+)\]\)? << (\d+)", t):
                    out.add((int(m.group(1)), int(m.group(2))))
                if re.search(r"\(cur_\[0\] \+", t) or re.search(r"= \(?\(?cur_\[0\]", t):
                    out.add((0, 0))
        if side == "enc" and any("*out = val" in t for t in txt):
            out.add((0, 0))
        if side == "dec" and any("return *cur_++" in t.replace("(", "").replace(")", "") or "*(cur_++)" in t or "*cur_++" in t for t in txt):
            out.add((0, 0))
        return out
    for nm, w in (("u8", 1), ("u16", 2), ("u32", 4), ("u64", 8)):
        e = [f for f in fb.by_cls.get(ENC, []) if f.name == nm and f.has_cfg]
        d = [f for f in fb.by_cls.get(DEC, []) if f.name == nm and f.has_cfg]
        if not e or not d:
            raise AnalysisBroken("C06: Encoder/Decoder::%s not found" % nm)
        pe, pd = pairs(e[0], "enc"), pairs(d[0], "dec")
        want = {(k, 8 * k) for k in range(w)}
        if not pe or not pd:
            raise AnalysisBroken("C06: byte extraction of %s not recognised (enc %s, dec %s)" % (nm, sorted(pe), sorted(pd)))
        ok = pe == want and pd == want
        (ck.ok if ok else lambda r_, w_, t: ck.violate(r_, w_, t, "C06.endian:%s" % nm))("C06.endian", e[0].where, "%s: encoder pairs %s, decoder pairs %s, expected %s" % (nm, sorted(pe), sorted(pd), sorted(want)))
    for nm, via in (("dbl", "u64"), ("flt", "u32")):
        for cls in (ENC, DEC):
            f = [g for g in fb.by_cls.get(cls, []) if g.name == nm and g.has_cfg]
            if not f:
                raise AnalysisBroken("C06: %s::%s not found" % (cls, nm))
            ok = any(x.get("pn", "") == cls + "::" + via for b, i, x in f[0].nodes(("call",))) and any(x.get("pn", "").endswith("memcpy") for b, i, x in f[0].nodes(("call",)))
            (ck.ok if ok else lambda r_, w_, t: ck.violate(r_, w_, t, "C06.endian:%s:%s" % (cls.split("::")[-1], nm)))("C06.endian", f[0].where, "%s::%s is a bit copy through %s" % (cls.split("::")[-1], nm, via))


# ------------------------------------------------------------------------------------------ (4)
def width_selection(ck, fb):
    ck.rule("C06.width", "suitable_int_encoding returns U8/U16 exactly up to the largest value of uint8_t/uint16_t; write_edges/faces/cells choose the handle encoding from the count of the kind whose handles they write (vertices / halfedges / halffaces); variable valences are encoded for the maximum valence")
    f = [g for g in fb.fns.values() if g.has_cfg and g.pq == NS + "suitable_int_encoding"]
    if not f:
        raise AnalysisBroken("anchor vanished: suitable_int_encoding")
    f = f[0]
    got = {}
    for b, i, x in f.tops():
        if x.get("k") != "ret":
            continue
        en = estr(x.get("x")).split("::")[-1]
        conds = [(c, pol) for c, pol, e in f.facts(b) if isinstance(pol, bool)]
        trues = [c for c, pol in conds if pol]
        if trues:
            p = cmp_parts(trues[-1])
            if p and p[0] == "<=":
                r = unwrap(strip_casts(p[2]))
                if isinstance(r, dict) and r.get("k") == "call" and r.get("pn", "") == "std::numeric_limits::max":
                    got[en] = r.get("cc", "")
                elif isinstance(r, dict) and r.get("k") == "lit":
                    got[en] = r["v"]
                else:
                    got[en] = estr(r)
            else:
                got[en] = estr(trues[-1])
        else:
            got[en] = "otherwise"
    ok = got.get("U8") in ("std::numeric_limits<unsigned char>", 255) and got.get("U16") in ("std::numeric_limits<unsigned short>", 65535) and got.get("U32") == "otherwise"
    (ck.ok if ok else lambda r_, w_, t: ck.violate(r_, w_, t, "C06.width:thresholds"))("C06.width", f.where, "suitable_int_encoding thresholds %s" % got)
    # the lambdas of call_with_encoder narrow to exactly these types
    lam = {}
    for g in fb.fns.values():
        if g.kind == "lambda" and "call_with_encoder" in (g.d.get("lambda_parent") or "") and g.has_cfg and len(g.d["params"]) == 2:
            prim = [x.get("pn", "").split("::")[-1] for b, i, x in g.nodes(("call",)) if x.get("pn", "").startswith(ENC + "::")]
            if prim:
                lam[prim[0]] = g.d["params"][1]["t"]
    want = {"u8": "unsigned char", "u16": "unsigned short", "u32": "unsigned int"}
    ok = all(lam.get(k) == v for k, v in want.items())
    (ck.ok if ok else lambda r_, w_, t: ck.violate(r_, w_, t, "C06.width:narrowing"))("C06.width", "ovmb_format.hh", "call_with_encoder narrows to %s" % lam)
    for name, cnt, written in (("write_edges", "n_vertices", ("from_vertex_handle", "to_vertex_handle")), ("write_faces", "n_halfedges", ("face_halfedges",)), ("write_cells", "n_halffaces", ("cell_halffaces",))):
        g = [h for h in fb.by_cls.get(BFW, []) if h.name == name and h.has_cfg]
        if not g:
            raise AnalysisBroken("anchor vanished: BinaryFileWriter::" + name)
        g = g[0]
        enc = [estr(g.resolve(x["a"])) for b, i, x in g.nodes(("call",)) if x.get("pn", "") == NS + "suitable_int_encoding"]
        lams = [h for h in fb.fns.values() if h.kind == "lambda" and h.d.get("lambda_parent") == g.id and h.has_cfg]
        wr = set()
        for h in lams + [g]:
            for b, i, x in h.nodes(("call",)):
                if x.get("pn", "").split("::")[-1] in written:
                    wr.add(x["pn"].split("::")[-1])
        ok = len(enc) == 1 and cnt + "()" in enc[0] and wr == set(written)
        (ck.ok if ok else lambda r_, w_, t: ck.violate(r_, w_, t, "C06.width:%s" % name))("C06.width", g.where, "%s encodes handles obtained via %s with suitable_int_encoding(%s)" % (name, sorted(wr), enc))
    st = [h for h in fb.fns.values() if h.has_cfg and h.name == "start_topo_chunk" and "/IO/detail/BinaryFileWriter.cc" in h.file]
    n_ok = 0
    for h in st:
        calls = [estr(h.resolve(x["a"])) for b, i, x in h.nodes(("call",)) if x.get("pn", "") == NS + "suitable_int_encoding"]
        if calls:
            n_ok += 1
            # the running maximum / minimum are found by role: locals assigned `x` exactly under `x > local` resp. `x < local`
            from .canon import Canon
            hcn = Canon(h)
            role = {}
            for vid, ms in hcn.mods.items():
                for kind_, bb, ii, m_ in ms:
                    a_ = as_assign(m_)
                    if not a_:
                        continue
                    lhs, rhs = hcn.s(a_[0]), hcn.s(a_[1])
                    fs_ = {(s_, p_) for s_, p_, c_ in hcn.facts(bb)}
                    if ("(%s > %s)" % (rhs, lhs), True) in fs_:
                        role[lhs] = "max"
                    if ("(%s < %s)" % (rhs, lhs), True) in fs_:
                        role[lhs] = "min"
            vmax = [k_ for k_, r_ in role.items() if r_ == "max"]
            vmin = [k_ for k_, r_ in role.items() if r_ == "min"]
            if len(vmax) != 1 or len(vmin) != 1:
                raise AnalysisBroken("%s: start_topo_chunk: running maximum/minimum of the valences not recognised (%s) - re-audit rule C06.width" % (h.where, role))
            ccalls = [hcn.s(x["a"][0]) for b, i, x in h.nodes(("call",)) if x.get("pn", "") == NS + "suitable_int_encoding" and x.get("a")]
            ok = all(c == vmax[0] for c in ccalls)
            (ck.ok if ok else lambda r_, w_, t: ck.violate(r_, w_, t, "C06.width:valence"))("C06.width", h.where, "start_topo_chunk encodes variable valences for the maximum valence (%s)" % calls)
            # fixed valence only if it fits the one-byte field
            conds = [h.resolve(h.term(b)["cond"]) for b in h.reach() if h.term(b) and h.term(b).get("cond")]
            fits = False
            for c2 in conds:
                for y in walk(c2):
                    p2 = cmp_parts(y) if isinstance(y, dict) else None
                    if p2 and p2[0] == "<=":
                        r2 = unwrap(strip_casts(p2[2]))
                        if isinstance(r2, dict) and ((r2.get("k") == "call" and r2.get("pn") == "std::numeric_limits::max" and r2.get("cc") == "std::numeric_limits<unsigned char>") or (r2.get("k") == "lit" and r2.get("v") == 255)):
                            fits = True
            from .canon import ceq
            ok = any(ceq(vmin[0], vmax[0]) in hcn.s(c2) for c2 in conds) and fits
            (ck.ok if ok else lambda r_, w_, t: ck.violate(r_, w_, t, "C06.width:fixedvalence"))("C06.width", h.where, "a fixed valence is only used when all valences agree and fit the one-byte header field")
    ck.floor("start_topo_chunk_instantiations", n_ok, 1)


# ------------------------------------------------------------------------------------------ (5)
def reader_siblings(ck, fb):
    ck.rule("C06.offset", "the three OVMB topology readers add header.handle_offset - the offset the format defines for contained handles - to every decoded handle before the range check (sibling agreement of read_edges / read_faces / read_cells)")
    for name in ("read_edges", "read_faces", "read_cells"):
        g = [h for h in fb.by_cls.get(BFR, []) if h.name == name and h.has_cfg]
        if not g:
            raise AnalysisBroken("anchor vanished: BinaryFileReader::" + name)
        g = g[0]
        lams = [h for h in fb.fns.values() if h.kind == "lambda" and (h.d.get("lambda_parent") == g.id or (h.d.get("lambda_parent") or "").startswith(g.id)) and h.has_cfg]
        adds = []
        for h in lams + [g]:
            for b, i, x in h.nodes(("call",)):
                if x.get("pn", "").endswith("::from_unsigned"):
                    a = unwrap(strip_casts(h.resolve(x["a"][0])))
                    # follow a local to its initialiser
                    src = a
                    if isinstance(a, dict) and a.get("k") == "var":
                        for bb, ii, d in h.nodes(("decl",)):
                            for v in d["vars"]:
                                if v["id"] == a["id"] and v.get("init") is not None:
                                    src = unwrap(strip_casts(h.resolve(v["init"])))
                    adds.append(estr(src))
        ok = bool(adds) and all(".handle_offset" in s for s in adds) and not any("span.first" in s for s in adds)
        (ck.ok if ok else lambda r_, w_, t: ck.violate(r_, w_, t, "C06.offset:%s" % name))("C06.offset", g.where, "%s builds handles from %s" % (name, sorted(set(adds))))


# ------------------------------------------------------------------------------------------ (6)
def ascii_tables(ck, fb):
    ck.rule("C06.ascii", "every typeName<T> specialisation has a branch `prop_t == typeName<T>()` in readProperty that instantiates generateGenericProperty<T> with the same T (and vice versa); the entity strings tested by generateGenericProperty are the lower-cased entityTypeName<E>() of the kind whose request_<E>_property they call")
    specs = {}
    for f in fb.fns.values():
        if f.pq == "OpenVolumeMesh::typeName" and f.d.get("targs") and f.has_cfg and "/FileManager/TypeNames.cc" in f.file:
            ret = [x for b, i, x in f.tops() if x.get("k") == "ret"]
            lits = [y.get("v") for y in walk(ret[0]) if isinstance(y, dict) and y.get("k") == "lit" and y.get("t") == "str"] if ret else []
            specs[f.d["targs"][0]] = lits[0] if lits else None
    ck.floor("typeName_specialisations", len(specs), 25)
    names = [v for v in specs.values()]
    dup = sorted({n for n in names if names.count(n) > 1})
    (ck.ok if not dup else lambda r_, w_, t: ck.violate(r_, w_, t, "C06.ascii:duplicate"))("C06.ascii", "TypeNames.cc", "type names are pairwise different (%d names)" % len(names))
    rps = [f for f in fb.by_cls.get(FM, []) if f.name == "readProperty" and f.has_cfg]
    if not rps:
        raise AnalysisBroken("no instantiation of FileManager::readProperty")
    f = rps[0]
    branches = {}
    for b, i, x in f.nodes(("call",)):
        if x.get("pn", "").endswith("::generateGenericProperty") and x.get("ta") and b in f.reach():
            T = x["ta"][0]
            tested = None
            for c, pol, e in f.facts(b):
                if pol is True:
                    for y in walk(c):
                        if isinstance(y, dict) and y.get("k") == "call" and y.get("pn", "") == "OpenVolumeMesh::typeName" and y.get("ta"):
                            tested = y["ta"][0]
            branches[T] = tested
    bad = {T: t for T, t in branches.items() if T != t}
    (ck.ok if not bad else lambda r_, w_, t: ck.violate(r_, w_, t, "C06.ascii:branch_type"))("C06.ascii", f.where, "every readProperty branch instantiates generateGenericProperty<T> for the T whose typeName it tested (%d branches%s)" % (len(branches), "" if not bad else "; mismatches %s" % bad))
    missing = sorted(set(specs) - set(branches))
    extra = sorted(set(branches) - set(specs))
    (ck.ok if not missing and not extra else lambda r_, w_, t: ck.violate(r_, w_, t, "C06.ascii:coverage"))("C06.ascii", f.where, "typeName specialisations and readProperty branches cover the same types (missing branches: %s, branches without specialisation: %s)" % (missing, extra))
    ent = {}
    for g in fb.fns.values():
        if g.pq == "OpenVolumeMesh::entityTypeName" and g.d.get("targs") and g.has_cfg:
            ret = [x for b, i, x in g.tops() if x.get("k") == "ret"]
            lits = [y.get("v") for y in walk(ret[0]) if isinstance(y, dict) and y.get("k") == "lit" and y.get("t") == "str"] if ret else []
            ent[g.d["targs"][0].split("Entity::")[-1]] = lits[0] if lits else None
    ck.floor("entityTypeName_specialisations", len(ent), 7)
    ggs = [g for g in fb.by_cls.get(FM, []) if g.name == "generateGenericProperty" and g.has_cfg]
    if not ggs:
        raise AnalysisBroken("no instantiation of generateGenericProperty")
    g = ggs[0]
    pairs = {}
    for b, i, x in g.nodes(("call",)):
        m = re.match(r"request_(\w+)_property", x.get("pn", "").split("::")[-1])
        if m and b in g.reach():
            for c, pol, e in g.facts(b):
                if pol is True:
                    lits = [y.get("v") for y in walk(c) if isinstance(y, dict) and y.get("k") == "lit" and y.get("t") == "str"]
                    if lits:
                        pairs[m.group(1)] = lits[0]
    want = {k.lower(): (v or "").lower() for k, v in ent.items()}
    ok = len(pairs) == 7 and all(want.get(k) == v for k, v in pairs.items())
    (ck.ok if ok else lambda r_, w_, t: ck.violate(r_, w_, t, "C06.ascii:entity"))("C06.ascii", g.where, "entity strings %s == lower-cased entityTypeName %s" % (pairs, want))


# ------------------------------------------------------------------------------------------ (7)
def registry(ck, fb):
    ck.rule("C06.registry", "OVMB property codecs are registered under pairwise different names, each for the codec's own value type T (encoder keyed by internal_type_name<T>, decoder by the file name)")
    regs = []
    for f in fb.fns.values():
        if not f.has_cfg or "/src/OpenVolumeMesh/IO/" not in f.file:
            continue
        for b, i, x in f.nodes(("call",)):
            nm = x.get("pn", "").split("::")[-1]
            if nm in ("register_codec", "register_arraylike", "register_matrixlike") and x.get("a") and f.name != "register_arraylike" and f.name != "register_matrixlike":
                lit = [y.get("v") for y in walk(f.resolve(x["a"][0])) if isinstance(y, dict) and y.get("k") == "lit" and y.get("t") == "str"]
                regs.append((lit[0] if lit else None, x.get("ta", []), f.loc(x)))
    ck.floor("codec_registrations", len(regs), 25)
    names = [r[0] for r in regs]
    dup = sorted({n for n in names if names.count(n) > 1})
    (ck.ok if not dup and None not in names else lambda r_, w_, t: ck.violate(r_, w_, t, "C06.registry:names"))("C06.registry", "PropertyCodecs.cc", "%d codecs registered under pairwise different names%s" % (len(regs), "" if not dup else " - duplicates %s" % dup))
    types = [str(r[1]) for r in regs]
    dupt = sorted({t for t in types if types.count(t) > 1})
    (ck.ok if not dupt else lambda r_, w_, t: ck.violate(r_, w_, t, "C06.registry:types"))("C06.registry", "PropertyCodecs.cc", "no value type is registered twice (a second registration would silently replace the encoder)")
    rc = [f for f in fb.fns.values() if f.has_cfg and f.name == "register_codec" and f.cls == "OpenVolumeMesh::IO::PropertyCodecs"]
    ck.floor("register_codec_instantiations", len(rc), 25)
    bad = 0
    for f in rc:
        txt = " ".join(estr(x) for b, i, x in f.tops())
        ms = [x.get("ta", []) for b, i, x in f.nodes(("call",)) if x.get("pn", "") == "std::make_shared" and x.get("ta")]
        itn = [x.get("ta", []) for b, i, x in f.nodes(("call",)) if x.get("pn", "").endswith("internal_type_name") and x.get("ta")]
        # PropertyEncoderT<T, Codec> / PropertyDecoderT<T, Codec> with the same T as internal_type_name<T>
        Ts = set()
        for a in ms:
            m = re.match(r"OpenVolumeMesh::IO::Property(?:En|De)coderT<(.*?), OpenVolumeMesh::IO::Codecs::", a[0])
            if m:
                Ts.add(m.group(1))
        if len(Ts) != 1 or not itn or itn[0][0] not in Ts:
            bad += 1
    (ck.ok if bad == 0 else lambda r_, w_, t: ck.violate(r_, w_, t, "C06.registry:T"))("C06.registry", rc[0].where, "register_codec (%d instantiations): encoder and decoder are created for the same T that keys the encoder table" % len(rc))


# ------------------------------------------------------------------------------------------ (8)
def pending_deletions(ck, fb):
    ck.rule("C06.pending", "every file writer refuses a mesh with pending deletions: the first effect on the output is dominated by a needs_garbage_collection() test whose true branch leaves without writing")
    targets = [f for f in fb.by_cls.get(BFW, []) if f.name == "do_write_file" and f.has_cfg] + [f for f in fb.by_cls.get(FM, []) if f.name == "writeStream" and f.has_cfg]
    ck.floor("writer_entry_points", len(targets), 4)
    seen = set()
    for f in targets:
        if f.pq in seen:
            continue
        seen.add(f.pq)
        # output effects: operator<< on the stream parameter / write_to_stream / write_chunk
        sparams = {p["id"] for p in f.d["params"] if "basic_ostream" in p["t"]}

        def to_file(x):
            if x.get("pn", "").split("::")[-1] in ("write_to_stream", "write_chunk", "write_propdir", "writeProps"):
                return True
            if x.get("op") != "<<":
                return False
            # leftmost operand of the << chain is the output stream parameter (diagnostics on std::cerr do not count)
            y = f.resolve(x)
            while isinstance(y, dict) and y.get("k") == "call" and y.get("op") == "<<":
                y = unwrap(y["r"] if y.get("r") is not None else y["a"][0])
            return isinstance(y, dict) and y.get("k") == "var" and y.get("id") in sparams
        outs = [(b, i) for b, i, x in f.nodes(("call",)) if b in f.reach() and to_file(x)]
        tests = []
        for b in f.reach():
            t = f.term(b)
            if t and t.get("cond") and "needs_garbage_collection()" in estr(f.resolve(t["cond"])):
                tests.append(b)
        ok = False
        if tests and outs:
            ok = all(any("needs_garbage_collection()" in estr(c) and pol is False for c, pol, e in f.facts(b)) for b, i in outs)
        if not ok and not tests and any(x.get("pn", "").split("::")[-1] in ("collect_garbage", "garbage_collection") for b, i, x in f.nodes(("call",)) if b in f.reach()):
            # the statement allows the other answer too ("refused or written as its logical content"): a writer that collects
            # garbage on a copy before writing has no refusal test - not judged
            ck.cannot_judge("C06.pending %s: %s collects garbage instead of refusing pending deletions - whether it writes the logical content is not judged" % (f.where, f.pq.split("::")[-1]))
            continue
        (ck.ok if ok else lambda r_, w_, t: ck.violate(r_, w_, t, "C06.pending:%s" % f.pq))("C06.pending", f.where, "%s writes only when !needs_garbage_collection() (%d output sites)" % (f.pq.split("::")[-1], len(outs)))


# ------------------------------------------------------------------------------------------ (9)
def topology_detection(ck, fb):
    ck.rule("C06.detect", "automatic type detection declares a mesh tetrahedral/hexahedral only after examining the valence of every face of the mesh (all faces, not only those of cells) and of every cell")
    n = 0
    for name, fv, cv in (("mesh_is_tetrahedral", 3, 4), ("mesh_is_hexahedral", 4, 6)):
        fs = [f for f in fb.fns.values() if f.has_cfg and f.pq == NS + name]
        if not fs:
            raise AnalysisBroken("no instantiation of " + name)
        for f in fs[:4]:
            n += 1
            loops = {}
            for hdr, body, backs in f.loops():
                t = f.term(hdr)
                r = estr(f.resolve(t["range"])) if t and t.get("range") is not None else ""
                loops[hdr] = (r, body)
            top_level = {h: rb for h, rb in loops.items() if not any(h in b2 and h != h2 for h2, (r2, b2) in loops.items())}
            over_faces = [h for h, (r, b) in top_level.items() if r.endswith("faces()")]
            over_cells = [h for h, (r, b) in top_level.items() if r.endswith("cells()")]
            rej = []
            for b, i, x in f.tops():
                if x.get("k") == "ret" and estr(x.get("x")) == "false":
                    for c, pol, e in f.facts(b):
                        s = estr(c)
                        if "valence(" in s and "!=" in s and pol is True:
                            rej.append(s)
            ok = bool(over_faces) and bool(over_cells) and any("!= %d" % fv in s for s in rej) and any("!= %d" % cv in s for s in rej)
            (ck.ok if ok else lambda r_, w_, t: ck.violate(r_, w_, t, "C06.detect:%s" % name))("C06.detect", f.where, "%s walks all faces() and all cells() at top level and rejects valences != %d / != %d (top-level ranges: %s)" % (name, fv, cv, sorted(r for r, b in top_level.values())))
    ck.floor("detection_instantiations", n, 2)


def buffer_rule(ck, fb):
    """W.reset: a WriteBuffer is emptied before it is filled again"""
    ck.rule("C06.buffer", "in the OVMB writer every (re)use of a WriteBuffer - constructing an Encoder on it, serialising a property default into it - is dominated by a reset() of that buffer (directly or through a callee that resets its buffer parameter), and when the buffer lives longer than the enclosing loop the reset happens inside that loop: otherwise the bytes of the previous chunk / property leak into the next one")
    fns = [f for f in fb.fns.values() if f.has_cfg and f.file.endswith("/IO/detail/BinaryFileWriter.cc")]

    def key(n):
        n = unwrap(n)
        if isinstance(n, dict) and n.get("k") == "var":
            return ("var", n.get("id"))
        if isinstance(n, dict) and n.get("k") == "mem":
            return ("mem", n.get("f"))
        return None

    def is_buf(n):
        n = unwrap(n)
        return isinstance(n, dict) and "WriteBuffer" in (n.get("t") or "")

    # callees that reset a buffer parameter
    resets_param = {}
    for g in fns:
        for b, i, x in g.nodes(("call",)):
            if x.get("pn", "").endswith("WriteBuffer::reset") and x.get("r") is not None:
                r = unwrap(g.resolve(x["r"]))
                if isinstance(r, dict) and r.get("k") == "var" and r.get("s") == "param":
                    for k, p_ in enumerate(g.d["params"]):
                        if p_["id"] == r.get("id"):
                            resets_param.setdefault(g.id, set()).add(k)
    n = 0
    for f in fns:
        resets = {}
        fills = []
        for b, i, x in f.nodes(("call", "ctor")):
            if b not in f.reach():
                continue
            if x.get("k") == "call":
                pn = x.get("pn", "")
                if pn.endswith("WriteBuffer::reset") and x.get("r") is not None:
                    k_ = key(f.resolve(x["r"]))
                    if k_:
                        resets.setdefault(k_, []).append((b, i))
                    continue
                args = f.resolve(x.get("a", []))
                for ai, a in enumerate(args):
                    if is_buf(a) and key(a):
                        if ai in resets_param.get(x.get("u"), ()):
                            resets.setdefault(key(a), []).append((b, i))
                        elif pn.split("::")[-1] in ("serialize_default", "serialize"):
                            fills.append((b, i, key(a), x, pn.split("::")[-1]))
            elif x.get("t", "").endswith("Encoder") and len(x.get("a", [])) == 1:
                a = f.resolve(x["a"][0])
                if is_buf(a) and key(a):
                    fills.append((b, i, key(a), x, "Encoder(...)"))
        loops = f.loops()
        for b, i, k_, x, what in fills:
            n += 1
            rs = resets.get(k_, [])
            inner = [lp for lp in loops if b in lp[1]]
            ok = False
            for rb, ri in rs:
                if not f.dominates((rb, ri), (b, i)):
                    continue
                if inner:
                    lp = min(inner, key=lambda q: len(q[1]))
                    declared_inside = False
                    if k_[0] == "var":
                        for db, di, d in f.nodes(("decl",)):
                            if any(v.get("id") == k_[1] for v in d["vars"]) and db in lp[1]:
                                declared_inside = True
                    if rb not in lp[1] and not declared_inside:
                        continue
                ok = True
            if not ok and k_[0] == "var":
                # a buffer declared (default-constructed) right before its only use, outside any loop, starts empty
                decls = [(db, di) for db, di, d in f.nodes(("decl",)) if any(v.get("id") == k_[1] for v in d["vars"])]
                ok = bool(decls) and not inner and all(f.dominates(dp, (b, i)) for dp in decls) and len([1 for fb_, fi_, fk_, fx_, fw_ in fills if fk_ == k_]) == 1
            (ck.ok if ok else lambda r, w, t: ck.violate(r, w, t, "C06.buffer:%s:%s" % (f.pq, k_[1])))("C06.buffer", f.loc(x), "%s: %s on %s follows a reset() of that buffer in the same iteration" % (f.pq.split("::")[-1], what, str(k_[1]).split("@")[0]))
    ck.floor("buffer_fill_sites", n, 8)


def bool_codec_rule(ck, fb):
    """the bit-packed bool codec: encoder and decoder agree on ceil(n/8) bytes"""
    import re
    from .canon import Canon
    ck.rule("C06.boolcodec", "BoolPropCodec: encode_n writes one byte per started group of 8 values (outer loop with step 8 over [begin, end)), decode_n budgets exactly ceil((end-begin)/8) bytes and reads one byte per started group: a budget of n/8+1 rejects every value count that is a multiple of 8, n/8 under-reads")
    fs = {f.name: f for f in fb.fns.values() if f.has_cfg and f.name in ("decode_n", "encode_n") and "BoolPropCodec" in (f.cls or f.pq)}
    if set(fs) != {"decode_n", "encode_n"}:
        raise AnalysisBroken("anchor vanished: BoolPropCodec::encode_n/decode_n (%s)" % sorted(fs))
    for name, f in fs.items():
        cn = Canon(f)
        step8 = any(cn.s(m[3]).replace(" ", "") in ("v0+=8", "v1+=8") or re.fullmatch(r"v\d+ \+= 8", cn.s(m[3])) for ms in cn.mods.values() for m in ms)
        outer = [cn.s((f.term(h) or {}).get("cond")) for h, b, k in f.loops()]
        ok = step8 and any(re.fullmatch(r"\(v\d+ < P3\)", c_) for c_ in outer)
        (ck.ok if ok else lambda r_, w_, t: ck.violate(r_, w_, t, "C06.boolcodec:%s:loop" % name))("C06.boolcodec", f.where, "%s walks [begin, end) in steps of 8 (loops %s)" % (name, outer))
    f = fs["decode_n"]
    cn = Canon(f)
    needs = [cn.s(x["a"][0]) for b, i, x in f.nodes(("call",)) if x.get("pn", "").endswith("Decoder::need") and x.get("a")]
    N = r"\(P3 - P2\)"
    if len(needs) != 1:
        ck.violate("C06.boolcodec", f.where, "decode_n budgets its input once (found %s)" % needs, "C06.boolcodec:need:count")
        return
    a = needs[0]
    if re.fullmatch(r"\(\(%s \+ 7\) / 8\)|\(\(%s \+ 7\) >> 3\)|\(\(7 \+ %s\) / 8\)" % (N, N, N), a):
        ck.ok("C06.boolcodec", f.where, "decode_n budgets ceil(n/8) bytes: %s" % a)
    elif re.fullmatch(r"\(\(%s / 8\) \+ 1\)|\(1 \+ \(%s / 8\)\)|\(%s / 8\)|\(%s >> 3\)" % (N, N, N, N), a):
        ck.violate("C06.boolcodec", f.where, "decode_n budgets %s bytes, which differs from the ceil(n/8) bytes the encoder writes whenever n is a multiple of 8" % a, "C06.boolcodec:need")
    else:
        ck.cannot_judge("%s: BoolPropCodec::decode_n budgets %s: rule C06.boolcodec does not know this form - re-audit" % (f.where, a))


def empty_span_rule(ck, fb):
    """the writer emits a PROP chunk with an empty span for a persistent property of a kind without elements"""
    from .canon import Canon
    ck.rule("C06.emptyspan", "BinaryFileReader::read_prop_chunk does not reject the empty span at the end of the range: files written before F65 store {first = 0, count = 0} for properties of entity kinds that have no elements (n = 0); the range error is raised either only for a non-empty span or by a test that is strict in first (first > n || n - first < count)")
    fs = [f for f in fb.fns.values() if f.has_cfg and f.name == "read_prop_chunk" and "BinaryFileReader" in (f.cls or "")]
    if not fs:
        raise AnalysisBroken("anchor vanished: BinaryFileReader::read_prop_chunk")
    f = fs[0]
    cn = Canon(f)
    n = 0
    for b, i, x in f.tops():
        a = as_assign(x)
        if not a or "state_" not in cn.s(a[0]) or "ErrorHandleRange" not in cn.s(a[1]):
            continue
        n += 1
        fs_ = {(s_, p_) for s_, p_, c_ in cn.facts(b)}
        ok = any(s_.endswith(".span.empty()") and p_ is False for s_, p_ in fs_)
        if not ok:
            # or the test itself lets {first = n, count = 0} pass: the error block is reached through the two disjuncts of
            # `first > n || n - first < count` (strict in first); the predecessor conditions are read from the CFG
            conds = set()
            for pb in f.reach():
                if b in f.succ(pb):
                    t_ = f.term(pb)
                    if t_ and t_.get("cond"):
                        conds.add(cn.s(t_["cond"]))
                    for s2, p2, c2 in cn.facts(pb):
                        conds.add(s2)
            strict = any(re.search(r"span\.first > ", c_) for c_ in conds) and not any(re.search(r"span\.first >= ", c_) for c_ in conds)
            room = any(re.search(r"\(\(.* - .*span\.first\) < .*span\.count\)", c_) for c_ in conds)
            ok = strict and room
        (ck.ok if ok else lambda r_, w_, t: ck.violate(r_, w_, t, "C06.emptyspan"))("C06.emptyspan", f.loc(x), "the span range error of read_prop_chunk is not raised for the empty span at the end of the range {first = n, count = 0}")
    if n == 0:
        ck.cannot_judge("%s: read_prop_chunk has no ErrorHandleRange assignment any more: rule C06.emptyspan cannot find the span test - re-audit" % f.where)
