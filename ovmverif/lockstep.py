"""C01 / C02 / C03 / C17: structural clauses built on rule family L (lock-step of the
parallel per-entity arrays) plus the property-specific shape rules of DESIGN section 3."""
from collections import defaultdict

from .extract import AnalysisBroken
from .facts import as_assign, estr, unwrap, walk
from .rule_g import TK, CacheModel, index_root, iter_sites
from .rule_l import HALF, KINDS, RM, KindModel, atoms_at, effects, fmt_atoms, handle_kind

DIM = {"Vertex": 0, "Edge": 1, "Face": 2, "Cell": 3}


def kernel_fns(fb):
    """functions of TopologyKernel itself (tet/hex kernels and geometry kernels delegate)"""
    return [f for f in fb.by_cls.get(TK, []) if f.has_cfg and "/verif/" not in f.file]


class Ctx:
    def __init__(self, ck, fb):
        self.ck, self.fb = ck, fb
        self.cm = CacheModel(fb)
        self.km = KindModel(fb, self.cm)
        self.fns = kernel_fns(fb)
        self.eff = {}
        n = 0
        for f in self.fns:
            e = effects(fb, self.km, f)
            if e:
                self.eff[f.id] = e
                n += len(e)
        self.n_effects = n
        ck.analysed["kernel_functions"] = len(self.fns)
        ck.analysed["mutators_with_shape_effects"] = len(self.eff)
        ck.analysed["shape_effect_sites"] = n
        ck.analysed["groups"] = {k: {"definition": (self.km.vcount if k == "Vertex" else self.km.defs[k]), "deleted_flags": self.km.flags[k], "deleted_counter": self.km.delcount[k],
                                     "caches": [c for c, (ck_, _) in self.km.caches.items() if ck_ == k]} for k in KINDS}
        ck.floor("mutators_with_shape_effects", len(self.eff), 17)
        ck.floor("shape_effect_sites", n, 95)

    def fn(self, name):
        c = [f for f in self.fns if f.name == name]
        if not c:
            raise AnalysisBroken("anchor vanished: TopologyKernel::%s" % name)
        return c

    def has_name(self, cache):
        return "has_" + self.cm.kinds[cache]["enable_name"][len("enable_"):] + "()"


def erase_root(e):
    """identity of the erased / notified position of an erase-class effect"""
    if not e["args"]:
        return None
    a = unwrap(e["args"][0])
    # container.begin() + k  (possibly wrapped in an iterator conversion)
    while isinstance(a, dict) and a.get("k") in ("ctor", "cast") and (a.get("a") or a.get("x")):
        a = unwrap(a["a"][0] if a.get("k") == "ctor" else a["x"])
    if isinstance(a, dict) and a.get("k") == "call" and a.get("op") == "+":
        rhs = a["a"][0] if "r" in a and a.get("r") is not None else a["a"][1]
        return estr_root(rhs)
    return estr_root(a)


def estr_root(x):
    x = unwrap(x)
    if isinstance(x, dict) and x.get("k") == "call" and x.get("pn", "").split("::")[-1] in ("idx", "uidx") and x.get("r") is not None:
        x = unwrap(x["r"])
    return estr(x)


def lockstep(c, rule, classes, targets, skip_fns=()):
    """reference = sites on the definition array (vertex: counter; swap on vertices: flag array).
    targets subset of {'flag','props','cache'}; checked in both directions."""
    ck, km, cm = c.ck, c.km, c.cm
    n = 0
    for fid, effs in c.eff.items():
        f = c.fb.fns[fid]
        if f.name in skip_fns:
            continue
        for kind in KINDS:
            for cls in classes:
                sites = [e for e in effs if e["kind"] == kind and e["cls"] == cls]
                defm = km.vcount if kind == "Vertex" else km.defs[kind]
                refs = [e for e in sites if e["member"] == defm]
                if not refs and kind == "Vertex":
                    refs = [e for e in sites if e["member"] == km.flags[kind]]
                flags = [e for e in sites if e["role"] == "flag"]
                props = [e for e in sites if e["role"] == "props" and not e.get("half")]
                hprops = [e for e in sites if e["role"] == "props" and e.get("half")]
                for ref in refs:
                    where = f.loc(ref["node"])
                    base = "%s: %s of %s.%s under %s" % (f.name, cls, kind, ref["member"], fmt_atoms(ref["atoms"]))
                    if "flag" in targets and ref["role"] != "flag":
                        n += 1
                        m = [e for e in flags if e["atoms"] == ref["atoms"]]
                        if m:
                            ck.ok(rule, where, base + " is matched on " + km.flags[kind])
                            if cls == "erase" and erase_root(ref) is None:
                                pass
                            elif cls == "erase" and erase_root(m[0]) != erase_root(ref):
                                ck.violate(rule + ".pos", where, "%s erases position %s but %s erases position %s" % (base, erase_root(ref), km.flags[kind], erase_root(m[0])), "%s.pos:%s:%s:flag" % (rule, f.pq, kind))
                            elif cls == "erase":
                                ck.ok(rule + ".pos", where, "%s: same position %s on %s" % (base, erase_root(ref), km.flags[kind]))
                        else:
                            ck.violate(rule, where, base + " has no matching %s on %s (found %s)" % (cls, km.flags[kind], [fmt_atoms(e["atoms"]) for e in flags] or "none"), "%s:%s:%s:%s:flag" % (rule, f.pq, cls, kind))
                    if "props" in targets:
                        n += 1
                        m = [e for e in props if e["atoms"] == ref["atoms"]]
                        if m:
                            ck.ok(rule, where, base + " is matched by the property notification " + m[0]["op"])
                            if cls == "erase":
                                rr = erase_root(ref)
                                if rr is None:  # vertex counter: compare with the flag array's position
                                    fl = [e for e in flags if e["atoms"] == ref["atoms"]]
                                    rr = erase_root(fl[0]) if fl else None
                                if erase_root(m[0]) != rr:
                                    ck.violate(rule + ".pos", where, "%s erases position %s but %s is notified for %s" % (base, rr, m[0]["op"], erase_root(m[0])), "%s.pos:%s:%s:props" % (rule, f.pq, kind))
                                else:
                                    ck.ok(rule + ".pos", where, "%s: notification %s names the same position %s" % (base, m[0]["op"], rr))
                            if cls == "swap" and kind in ("Edge", "Face"):
                                hm = [e for e in hprops if e["atoms"] == ref["atoms"]]
                                subs = sorted(sub_index_pair(e) for e in hm)
                                if subs == [(0, 0), (1, 1)]:
                                    ck.ok(rule, where, base + ": half-entity properties swapped side by side (0<->0, 1<->1)")
                                else:
                                    ck.violate(rule, where, base + ": half-entity properties must be swapped side by side, found sub-index pairs %s" % subs, "%s:%s:swap:%s:halfprops" % (rule, f.pq, kind))
                        else:
                            ck.violate(rule, where, base + " has no matching property notification (found %s)" % ([e["op"] + fmt_atoms(e["atoms"]) for e in sites if e["role"] == "props"] or "none"), "%s:%s:%s:%s:props" % (rule, f.pq, cls, kind))
                    if "cache" in targets:
                        for cache, (ckind, half) in km.caches.items():
                            if ckind != kind:
                                continue
                            n += 1
                            hasfn, flag = c.has_name(cache), cm.kinds[cache]["flag"]
                            m = []
                            for e in sites:
                                if e["member"] != cache:
                                    continue
                                extra, missing = e["atoms"] - ref["atoms"], ref["atoms"] - e["atoms"]
                                if not missing and all(p is True and a in (hasfn, flag) for a, p in extra):
                                    m.append(e)
                            need = 2 if (half and cls in ("erase", "swap")) else 1
                            if len(m) >= need:
                                ck.ok(rule, where, base + " is matched on cache %s under its guard" % cache)
                                if half and cls == "erase":
                                    subs = [sub_index(e["args"][0]) for e in sorted(m, key=lambda e: (e["pos"], e["node"].get("ln", 0)))]
                                    order = [sub_index(e["args"][0]) for e in m]
                                    if order[:2] == [1, 0]:
                                        ck.ok(rule + ".order", where, "%s: adjacent erases on %s issued higher position first" % (f.name, cache))
                                    else:
                                        ck.violate(rule + ".order", where, "%s: the two adjacent erases on %s must be issued sub-index 1 first, found %s" % (f.name, cache, order), "%s.order:%s:%s" % (rule, f.pq, cache))
                                if half and cls == "swap":
                                    subs = sorted(sub_index_pair(e) for e in m)
                                    if subs != [(0, 0), (1, 1)]:
                                        ck.violate(rule, where, base + ": cache %s must be swapped side by side, found %s" % (cache, subs), "%s:%s:swap:%s:pairs" % (rule, f.pq, cache))
                            else:
                                ck.violate(rule, where, base + " has no matching %s on cache %s under the same conditions + %s (found %s)" % (cls, cache, hasfn, [fmt_atoms(e["atoms"]) for e in sites if e["member"] == cache] or "none"),
                                           "%s:%s:%s:%s:%s" % (rule, f.pq, cls, kind, cache))
                # reverse direction: a target effect without the definition effect
                for e in sites:
                    role = e["role"]
                    if role == "def" or (role == "flag" and (not refs or refs[0]["role"] == "flag")):
                        continue
                    if role not in targets:
                        continue
                    if not [x for x in effs if x["role"] in ("def", "flag") and x["cls"] in ("grow", "erase", "swap", "clear")]:
                        continue  # cache maintenance function (enable_*/compute_*): no definition effects at all
                    ok = False
                    for ref in refs:
                        if not (ref["atoms"] - e["atoms"]):
                            ok = True  # the target effect runs only where the definition effect runs
                    n += 1
                    if ok:
                        ck.ok(rule, f.loc(e["node"]), "%s: %s on %s is accompanied by the same effect on the %s definition" % (f.name, cls, e["member"], kind))
                    else:
                        ck.violate(rule, f.loc(e["node"]), "%s: %s on %s under %s happens without the same effect on the %s definition" % (f.name, cls, e["member"], fmt_atoms(e["atoms"]), kind), "%s:%s:%s:%s:rev:%s" % (rule, f.pq, cls, kind, e["member"]))
    return n


def sub_index(x):
    """literal sub-index k of halfedge_handle(h,k) / h.halfedge_handle(k) inside an expression"""
    for n in walk(x):
        if n.get("k") == "call" and n.get("pn", "").split("::")[-1] in ("halfedge_handle", "halfface_handle"):
            a = n.get("a", [])
            if a:
                l = unwrap(a[-1])
                if isinstance(l, dict) and l.get("k") == "lit":
                    return l["v"]
    return None


def sub_index_pair(e):
    a = e["args"]
    if len(a) >= 2:
        return (sub_index(a[0]), sub_index(a[1]))
    return (None, None)


# ------------------------------------------------------------------------------------ C02
def run_c02(ck, fb, fbd):
    c = Ctx(ck, fb)
    km = c.km
    ck.rule("L.def", "every grow/erase/clear of a definition array (vertex: the counter) is matched, under identical mode conditions and at the same position, on the deleted-flag array of the same kind - and vice versa")
    lockstep(c, "L.def", ("grow", "erase", "clear"), {"flag"})
    # fast deletion swaps the victim with the last entity first: flags and caches have to travel with the definition,
    # or the closure of a later deletion is gathered from stale incidences
    ck.rule("L.swap", "each swap_K_indices swaps the deleted flag and the cache of K (under its guard) together with the definition")
    lockstep(c, "L.swap", ("swap",), {"flag", "cache"}, skip_fns=("collapse_edge",))
    # deferred pair
    ck.rule("L.deferred", "in every delete_K_core the deferred path sets K_deleted_[h]=true exactly where it increments n_deleted_K_, under deferred_deletion_enabled(); the immediate erases happen only under its negation")
    for kind in KINDS:
        for f in [f for f in c.fns if any(e["cls"] == "flag=true" and e["kind"] == kind for e in c.eff.get(f.id, []))]:
            effs = c.eff[f.id]
            fl = [e for e in effs if e["cls"] == "flag=true" and e["kind"] == kind]
            inc = [e for e in effs if e["cls"] == "delcount++" and e["kind"] == kind]
            for e in fl:
                ok = any(i["atoms"] == e["atoms"] and i["pos"][0] == e["pos"][0] for i in inc) and ("deferred_deletion_enabled()", True) in e["atoms"]
                (ck.ok if ok else lambda r, w, t: ck.violate(r, w, t, "L.deferred:%s:%s" % (f.pq, kind)))("L.deferred", f.loc(e["node"]), "%s: %s[h]=true paired with ++%s under %s" % (f.name, e["member"], km.delcount[kind], fmt_atoms(e["atoms"])))
            for e in [e for e in effs if e["cls"] == "erase" and e["kind"] == kind and e["role"] in ("def", "flag")]:
                ok = ("deferred_deletion_enabled()", False) in e["atoms"]
                (ck.ok if ok else lambda r, w, t: ck.violate(r, w, t, "L.deferred:%s:%s:erase" % (f.pq, kind)))("L.deferred", f.loc(e["node"]), "%s: immediate erase of %s only when deferred deletion is off" % (f.name, e["member"]))
    cores = {}
    for kind in KINDS:
        cand = [f for f in c.fns if any(e["cls"] == "erase" and e["kind"] == kind and e["role"] == "def" for e in c.eff.get(f.id, []))]
        if len(cand) != 1:
            raise AnalysisBroken("C02: expected exactly one function erasing the %s definition, found %s" % (kind, [x.name for x in cand]))
        cores[kind] = cand[0]
    ck.analysed["delete_cores"] = {k: f.name for k, f in cores.items()}
    gc_rules(c, cores)
    # a rebuilt cache that lists pending deletions, or a reset of an entry the cell no longer owns, makes the deletion
    # closure delete an entity twice / miss a live one (counts and genus go wrong): shared with C01/C04
    owner_rule(c, cores, elem_effects(c))
    compute_rule(c)
    # fast deletion = swap with the last entity + delete: a wrong relabelling of the caches corrupts the closure of later deletions
    relabel_rules(c)
    gc = find_gc(c)
    from .c04_c09 import leave_rule
    leave_rule(ck, c, gc)
    core_ids = {f.id: k for k, f in cores.items()}

    # closure order + reverse iteration
    ck.rule("C02.closure", "delete_vertex/edge/face gather the incident entities of every higher kind and call the delete_*_core functions in strictly descending dimension; every loop feeding delete_K_core iterates a std::set in reverse (descending handles)")
    n_tops = 0
    for f in c.fns:
        if f.id in core_ids:
            continue
        cs = [(b, i, n) for b, i, n in f.nodes(("call",)) if n.get("u") in core_ids and b in f.reach()]
        if not cs or f.id == gc.id:
            continue
        own = min(DIM[core_ids[n["u"]]] for b, i, n in cs)
        if f.name not in ("delete_vertex", "delete_edge", "delete_face", "delete_cell"):
            continue
        n_tops += 1
        kinds_called = {core_ids[n["u"]] for b, i, n in cs}
        want = {k for k in KINDS if DIM[k] >= own}
        (ck.ok if kinds_called == want else lambda r, w, t: ck.violate(r, w, t, "C02.closure:%s:set" % f.pq))("C02.closure", f.where, "%s calls the core deletion of exactly %s" % (f.name, sorted(want, key=DIM.get)))
        for (b1, i1, n1) in cs:
            for (b2, i2, n2) in cs:
                k1, k2 = core_ids[n1["u"]], core_ids[n2["u"]]
                if DIM[k1] < DIM[k2]:
                    bad = b2 in f.reachable_from(b1)
                    (ck.ok if not bad else lambda r, w, t: ck.violate(r, w, t, "C02.closure:%s:order:%s:%s" % (f.pq, k1, k2)))("C02.closure", f.loc(n1), "%s: %s cannot run before %s" % (f.name, cores[k1].name, cores[k2].name))
        for (b, i, n) in cs:
            k = core_ids[n["u"]]
            if DIM[k] == own:
                continue
            a = unwrap(f.resolve(n["a"][0]))
            # *it  with it a reverse iterator initialised from <std::set>.rbegin()
            it = None
            for x in walk(a):
                if x.get("k") == "var":
                    it = x
            ok = False
            why = "argument %s" % estr(a)
            if it is not None and "reverse_iterator" in it.get("t", ""):
                for _, _, d in f.nodes(("decl",)):
                    for v in d["vars"]:
                        if v["id"] == it["id"]:
                            init = unwrap(f.resolve(v.get("init")))
                            for y in walk(init):
                                if y.get("k") == "call" and y.get("pn", "").split("::")[-1] in ("rbegin", "crbegin") and "std::set<" in y.get("rt", ""):
                                    ok = True
            (ck.ok if ok else lambda r, w, t: ck.violate(r, w, t, "C02.closure:%s:reverse:%s" % (f.pq, k)))("C02.closure", f.loc(n), "%s: the loop calling %s walks a std::set from rbegin() (descending handles); %s" % (f.name, cores[k].name, why))
    ck.floor("closure_entry_points", n_tops, 4)

    # closure helpers go through deleted-skipping iterators
    ck.rule("C02.live", "the helpers that gather incident higher entities (std::set out-parameter) never touch a definition array directly: their linear-scan fallbacks run over the deleted-skipping iterators, so entities already marked deleted are not collected again")
    defs = set(km.defs.values())
    nh = 0
    for f in fb.fns.values():
        if f.cls != TK or not f.has_cfg or not f.d.get("const"):
            continue
        ps = f.d["params"]
        if len(ps) == 2 and ps[1]["t"].startswith("std::set<OpenVolumeMesh::") and ps[1]["t"].endswith("&") and f.d.get("ret") == "void":
            nh += 1
            bad = [n for b, i, n in f.nodes(("mem",)) if n.get("o") == TK and n.get("f") in defs]
            (ck.ok if not bad else lambda r, w, t: ck.violate(r, w, t, "C02.live:%s" % f.pq))("C02.live", f.where, "%s does not access %s directly" % (f.diag.split("::")[-1][:60], sorted(defs)))
    ck.floor("closure_helpers", nh, 3)

    # logical counts
    ck.rule("C02.logical", "every n_logical_K() subtracts the deleted counter of its own kind from the size of its own definition; genus() uses only logical counts")
    nl = 0
    for f in c.fns:
        if not f.d.get("const") or f.d["params"]:
            continue
        rets = [n for b, i, n in f.tops() if n.get("k") == "ret"]
        if len(rets) != 1:
            continue
        x = unwrap(rets[0]["x"])
        if isinstance(x, dict) and x.get("k") == "bin" and x.get("op") == "-":
            r = unwrap(x["r"])
            if isinstance(r, dict) and r.get("k") == "mem" and r.get("f") in km.delcount.values():
                kind = [k for k, v in km.delcount.items() if v == r["f"]][0]
                l = unwrap(x["l"])
                lk = None
                if l.get("k") == "mem" and l.get("f") == km.vcount:
                    lk = "Vertex"
                if l.get("k") == "call" and l.get("pn", "").endswith("::size"):
                    m = unwrap(l["r"])
                    if m.get("k") == "mem" and m.get("f") in km.defs.values():
                        lk = [k for k, v in km.defs.items() if v == m["f"]][0]
                nl += 1
                (ck.ok if lk == kind else lambda r_, w, t: ck.violate(r_, w, t, "C02.logical:%s" % f.pq))("C02.logical", f.where, "%s = size of %s definition - %s" % (f.name, kind, r["f"]))
    ck.floor("logical_count_functions", nl, 4)
    g = c.fn("genus")[0]
    names = sorted({n.get("pn", "").split("::")[-1] for b, i, n in g.nodes(("call",)) if n.get("cc") == TK})
    ok = names and all(x.startswith("n_logical_") for x in names) and len(names) == 4
    (ck.ok if ok else lambda r, w, t: ck.violate(r, w, t, "C02.logical:genus"))("C02.logical", g.where, "genus() is computed from %s" % names)

    corrections(c, cores)


def find_gc(c):
    gc = [f for f in c.fns if sum(1 for e in c.eff.get(f.id, []) if e["cls"] == "flag=false") >= 4]
    if len(gc) != 1:
        raise AnalysisBroken("collect_garbage not identified (functions resetting all four deleted flags: %s)" % [x.name for x in gc])
    return gc[0]


def delete_cores(c):
    cores = {}
    for kind in KINDS:
        cand = [f for f in c.fns if any(e["cls"] == "erase" and e["kind"] == kind and e["role"] == "def" for e in c.eff.get(f.id, []))]
        if len(cand) != 1:
            raise AnalysisBroken("expected exactly one function erasing the %s definition, found %s" % (kind, [x.name for x in cand]))
        cores[kind] = cand[0]
    return cores


def gc_rules(c, cores):
    ck, km = c.ck, c.km
    # collect_garbage
    ck.rule("L.gc", "collect_garbage: per kind, in descending dimension, a descending index loop clears K_deleted_[h] immediately before delete_K_core(h) and zeroes n_deleted_K_ after the loop; clear() zeroes all four counters")
    gc = find_gc(c)
    core_ids = {f.id: k for k, f in cores.items()}
    calls = [(b, i, n) for b, i, n in gc.nodes(("call",)) if n.get("u") in core_ids]
    for kind in KINDS:
        rs = [e for e in c.eff[gc.id] if e["cls"] == "flag=false" and e["kind"] == kind]
        cs = [(b, i, n) for b, i, n in calls if core_ids[n["u"]] == kind]
        ok = bool(rs) and bool(cs) and all(any(r["pos"][0] == b and r["pos"][1] < i and index_root(r["args"][0]) == index_root(gc.resolve(n["a"][0])) for r in rs) for b, i, n in cs)
        (ck.ok if ok else lambda r, w, t: ck.violate(r, w, t, "L.gc:reset:%s" % kind))("L.gc", gc.where, "collect_garbage clears %s[h] right before %s(h)" % (km.flags[kind], cores[kind].name))
        z = [e for e in c.eff[gc.id] if e["cls"] == "delcount=0" and e["kind"] == kind]
        ok = bool(z) and all(any(gc.dominates((b, i), e["pos"]) or loop_exit_reaches(gc, b, e["pos"][0]) for e in z) for b, i, n in cs)
        (ck.ok if ok else lambda r, w, t: ck.violate(r, w, t, "L.gc:zero:%s" % kind))("L.gc", gc.where, "collect_garbage zeroes %s after its loop" % km.delcount[kind])
    # order of kinds in collect_garbage: no path from a lower-dimensional core call to a higher one
    for (b1, i1, n1) in calls:
        for (b2, i2, n2) in calls:
            k1, k2 = core_ids[n1["u"]], core_ids[n2["u"]]
            if DIM[k1] < DIM[k2]:
                bad = b2 in gc.reachable_from(b1)
                (ck.ok if not bad else lambda r, w, t: ck.violate(r, w, t, "L.gc:order:%s:%s" % (k1, k2)))("L.gc", gc.where, "collect_garbage: %s never runs before %s" % (cores[k1].name, cores[k2].name))
    # descending index loops
    for hdr, body, backs in gc.loops():
        t = gc.term(hdr)
        cond = estr(gc.resolve(t.get("cond"))) if t and t.get("cond") else ""
        if not any(b in body for b, i, n in calls):
            continue
        step = [estr(n) for b, i, n in gc.tops() if b in body and n.get("k") == "un"]
        ok = "> 0" in cond and any(s.startswith("--") or s.endswith("--") for s in step)
        (ck.ok if ok else lambda r, w, t: ck.violate(r, w, t, "L.gc:descending"))("L.gc", gc.loc(t), "collect_garbage loop '%s' runs from the last index down to 1 (i > 0; --i)" % cond)
    clr = c.fn("clear")[0]
    for kind in KINDS:
        z = [e for e in c.eff.get(clr.id, []) if e["cls"] == "delcount=0" and e["kind"] == kind and not e["atoms"]]
        (ck.ok if z else lambda r, w, t: ck.violate(r, w, t, "L.gc:clear:%s" % kind))("L.gc", clr.where, "clear() zeroes %s unconditionally" % km.delcount[kind])



def loop_exit_reaches(f, b_in_loop, target_block):
    return target_block in f.reachable_from(b_in_loop)


def corrections(c, cores):
    """C02-(4): renumbering helpers and their placement"""
    ck, fb, km, cm = c.ck, c.fb, c.km, c.cm
    ck.rule("C02.correction", "X-HandleCorrection::correctValue subtracts 1 (full kinds) resp. 2 (half kinds) from handles above the threshold; in delete_K_core the threshold is the sub-index-1 handle of the victim and the corrections of the higher definitions (both the cache-guided and the linear-scan branch) and of the lower cache run exactly under !deferred && !fast (+ the cache guard)")
    delta = {"VHandleCorrection": 1, "HEHandleCorrection": 2, "HFHandleCorrection": 2, "CHandleCorrection": 1}
    seen = 0
    for f in fb.fns.values():
        if f.name == "correctValue" and f.cls and f.cls.split("::")[-1] in delta and f.has_cfg:
            seen += 1
            want = delta[f.cls.split("::")[-1]]
            got = None
            cmp_ok = False
            for b, i, n in f.tops():
                for x in walk(n):
                    if x.get("k") == "bin" and x.get("op") == "-":
                        r = unwrap(x["r"])
                        if isinstance(r, dict) and r.get("k") == "lit":
                            got = r["v"]
            for b in f.blocks:
                t = f.term(b)
                if t and t.get("cond"):
                    s = estr(f.resolve(t["cond"]))
                    if ">" in s and "thld_" in s and ">=" not in s:
                        cmp_ok = True
            (ck.ok if (got == want and cmp_ok) else lambda r, w, t: ck.violate(r, w, t, "C02.correction:%s" % f.cls))("C02.correction", f.where, "%s::correctValue: handles strictly above the threshold decrease by %d" % (f.cls.split("::")[-1], want))
    ck.floor("correction_helpers", seen, 4)
    lower_cache = {}  # kind -> cache whose element values are handles of that kind
    rec = fb.records[TK]
    for fld in rec["fields"]:
        if fld["n"] in km.caches:
            t = fld["t"]
            inner = t.split("std::vector<", 1)[1]
            for hk, kind in (("HEH", "Edge"), ("HFH", "Face"), ("CH", "Cell")):
                if "OpenVolumeMesh::%s" % hk in inner:
                    lower_cache[kind] = fld["n"]
    up_cache = {"Edge": [k for k, (kk, h) in km.caches.items() if kk == "Edge"][0], "Face": [k for k, (kk, h) in km.caches.items() if kk == "Face"][0]}
    for kind in ("Edge", "Face", "Cell"):
        f = cores[kind]
        sites = []
        for n, parents, pos in iter_sites(f):
            if n.get("k") == "ctor" and n.get("t", "").endswith("HandleCorrection") and not n.get("copy") and not n.get("move"):
                sites.append((n, pos, atoms_at(f, pos[0])))
        base = {("deferred_deletion_enabled()", False), ("fast_deletion_enabled()", False)}
        want = []
        if kind in up_cache:
            h = c.has_name(up_cache[kind])
            want.append(("higher definitions, cache-guided branch", frozenset(base | {(h, True)})))
            want.append(("higher definitions, linear-scan branch", frozenset(base | {(h, False)})))
        lc = lower_cache.get(kind)
        if lc:
            want.append(("lower cache %s" % lc, frozenset(base | {(c.has_name(lc), True)})))
        have = [a for n, p, a in sites]
        for label, a in want:
            ok = a in have
            (ck.ok if ok else lambda r, w, t: ck.violate(r, w, t, "C02.correction:%s:%s" % (f.pq, label.split(",")[0].split(" ")[0] + label[-12:])))("C02.correction", f.where, "%s renumbers the %s under exactly %s (found %s)" % (f.name, label, fmt_atoms(a), [fmt_atoms(x) for x in have]))
        for n, pos, a in sites:
            arg = unwrap(n["a"][0]) if n.get("a") else None
            if kind in ("Edge", "Face"):
                ok = sub_index(arg) == 1
                (ck.ok if ok else lambda r, w, t: ck.violate(r, w, t, "C02.correction:%s:threshold" % f.pq))("C02.correction", f.loc(n), "%s: correction threshold %s is the victim's sub-index-1 half handle" % (f.name, estr(arg)))
        ck.count("correction_sites", len(sites))
    # delete_vertex_core: the renumbering threshold is the position that is erased.  Under fast deletion the victim has been
    # swapped to the end and the local handle re-pointed; a threshold that still names the parameter shifts every handle above
    # the *requested* vertex although the last one was removed (round 5, C02i)
    import re
    from .canon import Canon
    f = cores["Vertex"]
    cn = Canon(f)
    pos = set()
    for b, i, x in f.tops():
        m = re.search(r"vertex_deleted_\.erase\(.*vertex_deleted_\.begin\(\) \+ (\w+)\.u?idx\(\)", cn.s(x))
        if m and b in f.reach():
            pos.add(m.group(1))
    if len(pos) != 1:
        ck.cannot_judge("C02.correction %s: delete_vertex_core: erase position of vertex_deleted_ not recognised (%s)" % (f.where, sorted(pos)))
    else:
        E = pos.pop()
        thr = []
        for b, i, x in f.tops():
            if b not in f.reach():
                continue
            m = re.search(r"VHandleCorrection\((.+?)\)$", cn.s(x).strip())
            if m:
                thr.append((x, m.group(1).strip()))
        for b in f.reach():
            t = f.term(b)
            if t and t.get("cond"):
                m = re.fullmatch(r"\(.*\.(?:from|to)_vertex\(\)(?:\.u?idx\(\))? > (.+)\)", cn.s(t["cond"]))
                if m:
                    thr.append((t["cond"], m.group(1).strip()))
        for x, tv in thr:
            base_ = tv.strip()
            while base_.startswith("(") and base_.endswith(")") and split_balanced(base_):
                base_ = base_[1:-1].strip()
            base_ = re.sub(r"\.u?idx\(\)$", "", base_)
            ok = base_ == E
            (ck.ok if ok else lambda r, w, t: ck.violate(r, w, t, "C02.correction:%s:threshold" % f.pq))("C02.correction", f.loc(x), "%s: the renumbering threshold %s is the erased position %s" % (f.name, tv, E))
        ck.floor("vertex_core_thresholds", len(thr), 1)


# ------------------------------------------------------------------------------------ C03
def run_c03(ck, fb, fbd):
    c = Ctx(ck, fb)
    ck.rule("L.props", "every grow/erase/clear of a definition array is matched, under identical mode conditions and for the same position, by the property notification of that kind (resize_Kprops / K_deleted / resize_Kprops(0)) - and vice versa")
    lockstep(c, "L.props", ("grow", "erase", "clear"), {"props"}, skip_fns=("collapse_edge",))
    ck.rule("L.swap", "each swap_K_indices swaps the property elements of K and of both half-kinds side by side together with the definition, under identical conditions")
    lockstep(c, "L.swap", ("swap",), {"props"}, skip_fns=("collapse_edge",))
    bool_storage_swap_rule(ck, fb)
    collapse_rule(ck, fb)
    rm_rules(ck, fb)
    resize_arg_rule(c)


def resize_arg_rule(c):
    """the property arrays are indexed by handle, i.e. by *physical* position: the size handed to resize_Kprops is the
    physical entity count after the call's mutation - never the logical count, which is smaller while deferred deletions are
    pending (round 5, C03i: add_n_vertices sized the arrays to n_logical_vertices() + n)"""
    import re
    from .canon import Canon
    ck, fb = c.ck, c.fb
    ck.rule("C03.size", "every resize_Kprops(x) of the kernel passes the physical entity count of kind K as it is after the mutation (n_K(), the size of the definition array, count + n directly before `count += n`) or 0 in clear(); a logical / deleted count in x is a violation, any other expression is not judged")
    PHYS = {"v": (r"n_vertices_|n_vertices\(\)",), "e": (r"n_edges\(\)|edges_\.size\(\)",), "f": (r"n_faces\(\)|faces_\.size\(\)",), "c": (r"n_cells\(\)|cells_\.size\(\)",)}
    n = 0
    for f in c.fns:
        if not f.has_cfg:
            continue
        cn = None
        for b, i, x in f.nodes(("call",)):
            m = re.fullmatch(r"resize_([vefc])props", x.get("pn", "").split("::")[-1])
            if not m or b not in f.reach() or not x.get("a"):
                continue
            cn = cn or Canon(f)
            k = m.group(1)
            phys = PHYS[k][0]
            a = cn.s(x["a"][0]).strip()
            while a.startswith("(") and a.endswith(")") and split_balanced(a):
                a = a[1:-1].strip()
            a = re.sub(r"^\((?:unsigned int|unsigned long|size_t|std::size_t|int)\)", "", a).strip()
            n += 1
            tag = "C03.size:%s:%s" % (f.pq, k)
            if re.search(r"n_logical_|n_deleted_|_deleted_", a):
                ck.violate("C03.size", f.loc(x), "%s: resize_%sprops(%s) sizes the property arrays by a logical / deleted count: handles are physical positions, live entities beyond that size lose their values while deletions are pending" % (f.name, k, a[:80]), tag)
            elif re.fullmatch(r"0\w*", a):
                ck.ok("C03.size", f.loc(x), "%s: resize_%sprops(0)" % (f.name, k))
            elif re.fullmatch(phys, a):
                # no growth of the count after the call
                later = [cn.s(y) for b2, i2, y in f.tops() if b2 in f.reach() and f.dominates((b, i), (b2, i2)) and (b2, i2) != (b, i) and re.search(r"(\+\+\s*n_vertices_|n_vertices_\s*\+\+|n_vertices_ \+=|(edges_|faces_|cells_)\.(push_back|emplace_back|resize)\()", cn.s(y))]
                later = [y for y in later if {"v": "n_vertices_", "e": "edges_", "f": "faces_", "c": "cells_"}[k] in y]
                (ck.ok if not later else lambda r_, w_, t_: ck.violate(r_, w_, t_, tag))("C03.size", f.loc(x), "%s: resize_%sprops(%s) is called with the physical count after the last growth of the definition%s" % (f.name, k, a, "" if not later else " - but followed by " + later[0][:60]))
            else:
                m2 = re.fullmatch(r"\(?(%s) \+ (.+?)\)?" % phys, a)
                nxt = [cn.s(y) for b2, i2, y in f.tops() if b2 == b and i2 > i]
                if m2 and any(re.fullmatch(r"\(?%s \+= %s\)?" % (re.escape(m2.group(1)), re.escape(m2.group(2))), y) for y in nxt[:2]):
                    ck.ok("C03.size", f.loc(x), "%s: resize_%sprops(%s) directly before the count grows by the same amount" % (f.name, k, a))
                else:
                    ck.cannot_judge("C03.size %s: %s: unknown size expression resize_%sprops(%s)" % (f.loc(x), f.name, k, a[:80]))
    ck.floor("kernel_resize_props_sites", n, 9)


def rm_rules(ck, fb):
    ck.rule("C03.rm", "ResourceManager: resize_e/fprops size the half-kind to exactly 2*n; edge_deleted/face_deleted erase the two half slots higher position first; every notification iterates the tracker of the handle's own entity tag; PropertyStorageT::resize fills with the default and push_back pushes the default; mesh-kind properties are only ever sized to 1")
    fns = {f.name: f for f in fb.by_cls.get(RM, []) if f.has_cfg and not f.d.get("inst")}
    for name, full, half in (("resize_eprops", "Edge", "HalfEdge"), ("resize_fprops", "Face", "HalfFace"), ("reserve_eprops", "Edge", "HalfEdge"), ("reserve_fprops", "Face", "HalfFace")):
        f = fns.get(name)
        if f is None:
            raise AnalysisBroken("anchor vanished: ResourceManager::" + name)
        seen = {}
        for b, i, n in f.nodes(("call",)):
            for tag in (full, half):
                if n.get("ta") == ["OpenVolumeMesh::Entity::" + tag] and n.get("a"):
                    seen[tag] = estr(unwrap(f.resolve(n["a"][0])))
        p = f.d["params"][0]["n"]
        ok = seen.get(full) == p and seen.get(half) in ("(2 * %s)" % p, "(%s * 2)" % p)
        (ck.ok if ok else lambda r, w, t: ck.violate(r, w, t, "C03.rm:%s" % name))("C03.rm", f.where, "%s(%s): %s props get %s, %s props get %s" % (name, p, full, seen.get(full), half, seen.get(half)))
    for name, half in (("edge_deleted", "HalfEdge"), ("face_deleted", "HalfFace")):
        f = fns.get(name)
        if f is None:
            raise AnalysisBroken("anchor vanished: ResourceManager::" + name)
        order = []
        for b, i, n in sorted(((b, i, n) for b, i, n in f.nodes(("call",)) if n.get("pn", "").endswith("::entity_deleted")), key=lambda x: (-x[0], x[1])):
            order.append(sub_index(f.resolve(n.get("a", []))))
        order = [o for o in order if o is not None]
        ok = order[:2] == [1, 0]
        (ck.ok if ok else lambda r, w, t: ck.violate(r, w, t, "C03.rm:%s:order" % name))("C03.rm", f.where, "%s erases the half-entity slots sub-index 1 first (found %s)" % (name, order))
    # entity_deleted<Handle> / swap_property_elements<Handle>: tracker tag = handle's entity tag
    n_inst = 0
    for f in fb.by_cls.get(RM, []):
        if not f.has_cfg or not f.d.get("inst") or f.name not in ("entity_deleted", "swap_property_elements", "copy_property_elements", "resize_props", "reserve_props"):
            continue
        tags = set()
        for b, i, n in f.nodes(("call",)):
            if n.get("pn", "").endswith("storage_tracker") and n.get("ta"):
                tags.add(n["ta"][0].split("Entity::")[-1])
        own = None
        if f.d["params"] and handle_kind(f.d["params"][0]["t"]):
            own = handle_kind(f.d["params"][0]["t"])
        elif f.d.get("targs"):
            own = f.d["targs"][0].split("Entity::")[-1]
        if not tags:
            continue
        n_inst += 1
        ok = tags == {own}
        (ck.ok if ok else lambda r, w, t: ck.violate(r, w, t, "C03.rm:tag:%s:%s" % (f.name, own)))("C03.rm", f.where, "%s iterates the storage tracker of its own entity tag %s (found %s)" % (f.diag.split("ResourceManager::")[-1][:70], own, sorted(tags)))
    ck.floor("tracker_tag_instantiations", n_inst, 20)
    # mesh-kind properties: every resize_props<Entity::Mesh>(n) has n == 1
    nm = 0
    for f in fb.fns.values():
        if not f.has_cfg or "/verif/" in f.file:
            continue
        for b, i, n in f.nodes(("call",)):
            if n.get("pn", "").endswith("ResourceManager::resize_props") and n.get("ta") == ["OpenVolumeMesh::Entity::Mesh"]:
                nm += 1
                a = unwrap(f.resolve(n["a"][0]))
                ok = a.get("k") == "lit" and a.get("v") == 1
                if not ok and a.get("k") == "call" and a.get("ta") == ["OpenVolumeMesh::Entity::Mesh"] and a.get("pn", "").split("::")[-1] == "n":
                    ok = True  # n<Entity::Mesh>() is the constant 1
                (ck.ok if ok else lambda r, w, t: ck.violate(r, w, t, "C03.rm:meshprops:%s" % f.pq))("C03.rm", f.loc(n), "%s sizes mesh-kind properties to %s (must be exactly 1)" % (f.pq.split("::")[-1], estr(a)))
    # generic for_each_entity-style resize: a lambda/template that resizes by a parameter for every tag incl. Mesh
    for f in fb.fns.values():
        if not f.has_cfg or "/verif/" in f.file or "Entity::Mesh" not in f.diag and "Entity::Mesh" not in str(f.d["params"]):
            continue
    ck.count("mesh_prop_resize_sites", nm)
    # PropertyStorageT<T>::resize / push_back use def_
    nd = 0
    for f in fb.fns.values():
        if f.has_cfg and f.cls and f.cls.startswith("OpenVolumeMesh::PropertyStorageT<") and f.name in ("resize", "push_back") and "/src/OpenVolumeMesh/" in f.file:
            uses_def = any(n.get("f") == "def_" for b, i, n in f.nodes(("mem",)))
            # EVERY call that can grow data_ has to pass def_ (a fast path that appends T() instead is a violation)
            call = [n for b, i, n in f.nodes(("call",)) if n.get("pn", "").split("::")[-1] in ("resize", "push_back", "emplace_back", "insert", "emplace", "assign") and n.get("cc", "").startswith("std::vector") and b in f.reach()]
            argdef = bool(call)
            for n in call:
                if not any(x.get("f") == "def_" for a in n.get("a", []) for x in walk(f.resolve(a)) if x.get("k") == "mem"):
                    argdef = False
            nd += 1
            (ck.ok if (uses_def and argdef) else lambda r, w, t: ck.violate(r, w, t, "C03.rm:default:%s:%s" % (f.cls, f.name)))("C03.rm", f.where, "%s::%s passes def_ as the fill value" % (f.cls.replace("OpenVolumeMesh::", ""), f.name))
    ck.floor("storage_fill_sites", nd, 8)


# ------------------------------------------------------------------------------------ C01
def run_c01(ck, fb, fbd):
    c = Ctx(ck, fb)
    km, cm = c.km, c.cm
    ck.rule("L.cache", "every grow/erase/clear of a definition array is matched on the bottom-up cache indexed by the same kind, under the same mode conditions plus the cache's has_* guard (twice and higher-position-first for half-entity caches) - and a cache is never grown/erased without its definition")
    lockstep(c, "L.cache", ("grow", "erase", "clear"), {"cache"})
    ck.rule("L.swap", "each swap_K_indices swaps the cache of K (half kinds side by side) under its guard together with the definition")
    lockstep(c, "L.swap", ("swap",), {"cache"}, skip_fns=("collapse_edge",))
    relabel_rules(c)
    # element-level maintenance: add_edge/add_face/add_cell push / assign for every new half entity
    ck.rule("C01.link", "add_edge pushes both new halfedges into the vertex cache, add_face pushes the new halfface for the halfedge and its opposite, add_cell assigns the new cell to each of its halffaces - each under the cache's guard only")
    elem = elem_effects(c)
    expect = {"add_edge": (km_cache(c, "Vertex"), "push", 2), "add_face": (km_cache(c, "Edge"), "push", 2), "add_cell": (km_cache(c, "Face"), "assign", 1)}
    for name, (cache, what, cnt) in expect.items():
        for f in c.fn(name):
            if not any(e["cls"] == "grow" and e["role"] == "def" for e in c.eff.get(f.id, [])):
                continue
            sites = [e for e in elem.get(f.id, []) if e["cache"] == cache and e["what"] == what]
            h = c.has_name(cache)
            good = [e for e in sites if e["atoms"] - {a for a in e["atoms"] if a[0] != h} == {(h, True)} and not any(a[0] in ("deferred_deletion_enabled()", "fast_deletion_enabled()") for a in e["atoms"])]
            ok = len(good) >= cnt
            (ck.ok if ok else lambda r, w, t: ck.violate(r, w, t, "C01.link:%s" % f.pq))("C01.link", f.where, "%s: %d %s site(s) on %s under %s (found %d)" % (f.name, cnt, what, cache, h, len(good)))
    # unlink before defer
    ck.rule("C01.unlink", "delete_edge_core / delete_face_core / delete_cell_core remove the victim from the caches of its sub-entities on the deferred path too: the unlink sites carry no deferred/fast condition")
    cores = {k: [f for f in c.fns if any(e["cls"] == "erase" and e["kind"] == k and e["role"] == "def" for e in c.eff.get(f.id, []))][0] for k in KINDS}
    for kind, cache in (("Edge", km_cache(c, "Vertex")), ("Face", km_cache(c, "Edge")), ("Cell", km_cache(c, "Face"))):
        f = cores[kind]
        sites = [e for e in elem.get(f.id, []) if e["cache"] == cache and e["what"] in ("unlink", "assign")]
        h = c.has_name(cache)
        good = [e for e in sites if not any(a[0] in ("deferred_deletion_enabled()", "fast_deletion_enabled()") for a in e["atoms"]) and (h, True) in e["atoms"]]
        need = 2 if kind in ("Edge", "Face") else 1
        ok = len(good) >= need
        (ck.ok if ok else lambda r, w, t: ck.violate(r, w, t, "C01.unlink:%s" % f.pq))("C01.unlink", f.where, "%s unlinks the victim from %s in every deletion mode (%d mode-independent site(s), need %d)" % (f.name, cache, len(good), need))
    owner_rule(c, cores, elem)
    compute_rule(c)
    value_rules(c, cores)
    value_rules_rebuild(c)
    # the renumbering of the caches after an erase belongs to their maintenance (shared with C02/C12)
    corrections(c, cores)
    # reorder_incident_halffaces rewrites a cache list in place: it may only replace it by a complete permutation (shared with C09)
    from .c04_c09 import walk_rules
    ro = [f for f in c.fns if f.name == "reorder_incident_halffaces"]
    if not ro:
        raise AnalysisBroken("anchor vanished: TopologyKernel::reorder_incident_halffaces")
    walk_rules(ck, fb, ro[0])
    # set_edge / set_face / set_cell
    ck.rule("C01.set", "set_edge/set_face/set_cell unlink the old definition from the cache and link the new one under the cache's guard, and write the definition afterwards on every path")
    for name, cache in (("set_edge", km_cache(c, "Vertex")), ("set_face", km_cache(c, "Edge")), ("set_cell", km_cache(c, "Face"))):
        f = c.fn(name)[0]
        es = elem.get(f.id, [])
        un = [e for e in es if e["cache"] == cache and e["what"] in ("unlink", "assign")]
        ln = [e for e in es if e["cache"] == cache and e["what"] in ("push", "assign")]
        h = c.has_name(cache)
        ok = bool(un) and bool(ln) and all((h, True) in e["atoms"] for e in un + ln)
        (ck.ok if ok else lambda r, w, t: ck.violate(r, w, t, "C01.set:%s" % f.pq))("C01.set", f.where, "%s unlinks (%d) and links (%d) on %s under %s" % (name, len(un), len(ln), cache, h))
        setters = [(b, i) for b, i, n in f.nodes(("call",)) if n.get("pn", "").split("::")[-1] in ("set_from_vertex", "set_to_vertex", "set_halfedges", "set_halffaces")]
        pd = f.postdominators()
        ok = bool(setters) and all(b in pd.get(f.entry, ()) for b, i in setters) and all(not f.dominates(s, e["pos"]) for s in setters for e in un + ln)
        (ck.ok if ok else lambda r, w, t: ck.violate(r, w, t, "C01.set:%s:def" % f.pq))("C01.set", f.where, "%s writes the definition on every path, after the cache update" % name)
    ck.analysed["cache_element_sites"] = sum(len(v) for v in elem.values())
    ck.floor("cache_element_sites", ck.analysed["cache_element_sites"], 24)


def owner_rule(c, cores, elem):
    ck, fb, km, cm = c.ck, c.fb, c.km, c.cm
    # ownership-guarded reset / relabel of the cell cache
    ck.rule("C01.owner", "delete_cell_core and swap_cell_indices overwrite incident_cell_per_hf_[x] only after testing that the entry still names the cell being deleted / swapped (a deferred-deleted cell may already have been replaced on the same halffaces)")
    fc = km_cache(c, "Face")
    for f in [cores["Cell"]] + c.fn("swap_cell_indices"):
        sites = [e for e in elem.get(f.id, []) if e["cache"] == fc and e["what"] == "assign"]
        if not sites:
            # the write may have moved into a local lambda (round 5, C09i): that is not "no update" - the rule reads the
            # function's own effects only, so it does not judge that formulation
            from .canon import Canon
            moved = False
            for g in fb.fns.values():
                if g.kind == "lambda" and (g.d.get("lambda_parent") or "").startswith(f.id) and g.has_cfg:
                    cg = Canon(g)
                    if any(as_assign(x) and fc + "[" in cg.s(as_assign(x)[0]) for b, i, x in g.tops()):
                        moved = True
            if moved:
                ck.cannot_judge("C01.owner %s: %s updates %s inside a local lambda (formulation not judged)" % (f.where, f.name, fc))
            else:
                ck.violate("C01.owner", f.where, "%s no longer updates %s" % (f.name, fc), "C01.owner:%s:none" % f.pq)
        for e in sites:
            ok = False
            for cond, pol, edge in f.facts(e["pos"][0]):
                cc = unwrap(cond)
                if pol is True and cc.get("k") == "call" and cc.get("op") == "==" or pol is True and cc.get("k") == "bin" and cc.get("op") == "==":
                    s = estr(cc)
                    if fc in s and index_root_of_elem(cc, fc) == e["index"]:
                        ok = True
            (ck.ok if ok else lambda r, w, t: ck.violate(r, w, t, "C01.owner:%s" % f.pq))("C01.owner", f.loc(e["node"]), "%s: write to %s[%s] is guarded by an equality test of that very entry" % (f.name, fc, e["index"]))


def compute_rule(c):
    ck, fb, km, cm = c.ck, c.fb, c.km, c.cm
    # compute functions
    ck.rule("C01.compute", "compute_*_bottom_up_incidences start with clear+resize of their cache and run only over the deleted-skipping ranges (vertices()/edges()/faces()/cells() and circulator ranges): every loop is a range-for over a range returned by a TopologyKernel accessor, or an index loop all of whose effects lie under a not-deleted fact")
    for cache, k in cm.kinds.items():
        f = fb.fns[k["compute"]]
        effs = c.eff.get(f.id, [])
        cl = [e for e in effs if e["member"] == cache and e["cls"] == "clear" and not e["atoms"]]
        gr = [e for e in effs if e["member"] == cache and e["cls"] == "grow" and not e["atoms"]]
        ok = bool(cl) and bool(gr) and f.dominates(cl[0]["pos"], gr[0]["pos"])
        (ck.ok if ok else lambda r, w, t: ck.violate(r, w, t, "C01.compute:%s:init" % f.pq))("C01.compute", f.where, "%s clears and then resizes %s unconditionally" % (f.name, cache))
        nloops = 0
        for hdr, body, backs in f.loops():
            t = f.term(hdr)
            nloops += 1
            ok = False
            desc = t["c"] if t else "?"
            if t and t["c"] == "CXXForRangeStmt":
                r = unwrap(f.resolve(t.get("range")))
                desc = "range-for over " + estr(r)[:50]
                if isinstance(r, dict) and r.get("k") == "call" and r.get("cc", "") == TK and r.get("t", "").startswith("std::pair<"):
                    ok = True
            if not ok:
                # an index loop is as good when every statement of its body lies under a not-deleted fact
                from .canon import Canon as _Canon
                _cn = _Canon(f)
                inner = {b_ for h2, b2, k2 in f.loops() if h2 != hdr and h2 in body for b_ in b2}
                eff_blocks = {b_ for b_, i_, x_ in f.tops() if b_ in body and b_ != hdr and b_ not in inner and (as_assign(x_) or x_.get("k") == "call")}
                guarded = bool(eff_blocks) and all(any(p_ is False and ("is_deleted(" in s_ or "_deleted_[" in s_) for s_, p_, c_ in _cn.facts(b_)) for b_ in eff_blocks)
                if guarded:
                    ok = True
                    desc += " with every effect under !is_deleted"
            (ck.ok if ok else lambda r_, w, t_: ck.violate(r_, w, t_, "C01.compute:%s:loop" % f.pq))("C01.compute", f.loc(t) if t else f.where, "%s: %s is a deleted-skipping range of the kernel" % (f.name, desc))
        ck.count("compute_loops", nloops)


def km_cache(c, kind):
    """cache indexed by (half-)entities of `kind`"""
    r = [cache for cache, (k, h) in c.km.caches.items() if k == kind]
    if len(r) != 1:
        raise AnalysisBroken("cache for kind %s not unique: %s" % (kind, r))
    return r[0]


def index_root_of_elem(expr, cache):
    for n in walk(expr):
        if n.get("k") == "idx":
            b = unwrap(n["b"])
            if isinstance(b, dict) and b.get("k") == "mem" and b.get("f") == cache:
                return index_root(n["i"])
    return None


def elem_effects(c):
    """element-level effects on cache entries: push (cache[x].push_back), unlink (erase(remove..)/resize(remove..-begin)),
    assign (cache[x] = v); per function"""
    out = defaultdict(list)
    for f in c.fns:
        for n, parents, pos in iter_sites(f):
            if pos[0] not in f.reach():
                continue
            tgt = what = None
            k = n.get("k")
            if k == "call" and n.get("r") is not None:
                r = unwrap(n["r"])
                name = n.get("pn", "").split("::")[-1]
                if isinstance(r, dict) and r.get("k") == "idx":
                    b = unwrap(r["b"])
                    if isinstance(b, dict) and b.get("k") == "mem" and b.get("o") == TK and b.get("f") in c.km.caches:
                        if name in ("push_back", "emplace_back"):
                            tgt, what = (b["f"], index_root(r["i"])), "push"
                        elif name in ("erase", "resize") and any(x.get("k") == "call" and x.get("pn", "").endswith("std::remove") for x in walk(n.get("a", []))):
                            tgt, what = (b["f"], index_root(r["i"])), "unlink"
                        elif name == "resize":
                            # h_end computed by std::remove in a previous statement
                            tgt, what = (b["f"], index_root(r["i"])), "unlink"
            asn = as_assign(n) if k in ("asg", "call") else None
            if asn:
                l = unwrap(asn[0])
                if isinstance(l, dict) and l.get("k") == "idx":
                    b = unwrap(l["b"])
                    if isinstance(b, dict) and b.get("k") == "mem" and b.get("o") == TK and b.get("f") in c.km.caches:
                        tgt, what = (b["f"], index_root(l["i"])), "assign"
            if tgt:
                out[f.id].append(dict(cache=tgt[0], index=tgt[1], what=what, pos=pos, node=n, atoms=atoms_at(f, pos[0])))
    return out


def collapse_rule(ck, fb):
    """TetrahedralMeshTopologyKernel::collapse_edge re-creates the cells around the removed vertex: the property values of
    every entity it CREATES follow from the entity it replaces; an entity that existed before keeps its own values"""
    from .canon import Canon, split_eq
    import re
    ck.rule("C03.collapse", "collapse_edge transfers property values (swap_/copy_property_elements(old, new)) to everything it creates: for a created edge the halfedge of the rebuilt cell, its opposite and the edge; for a created face the halfface, its opposite and the face; the rebuilt cell; for halfedges and halffaces - where add_* may return an entity that existed before and survives - the transfer happens only under a comparison of the new entity's index with a count taken from the mesh (created here), and it is a copy: a swap undoes itself when two rebuilt cells share the entity")
    fs = [f for f in fb.by_cls.get("OpenVolumeMesh::TetrahedralMeshTopologyKernel", []) if f.name == "collapse_edge" and f.has_cfg]
    if len(fs) != 1:
        raise AnalysisBroken("anchor vanished: TetrahedralMeshTopologyKernel::collapse_edge (%d)" % len(fs))
    f = fs[0]
    cn = Canon(f)
    seen = {}
    for b, i, x in f.nodes(("call",)):
        nm = x.get("pn", "").split("::")[-1]
        if nm not in ("swap_property_elements", "copy_property_elements") or b not in f.reach() or len(x.get("a", [])) != 2:
            continue
        a = f.resolve(x["a"])
        t = (unwrap(a[1]).get("t") or unwrap(a[1]).get("rt") or "").replace("const ", "").split("::")[-1]
        seen.setdefault(t, []).append((cn.s(x["a"][1]), nm, b, x))
    WANT = (("HEH", "add_halfedge(", "n_edges()", "the halfedge that occurs in the rebuilt cell"),
            ("HEH", "opposite_halfedge_handle(add_halfedge(", "n_edges()", "the other side of a created edge"),
            ("EH", "edge_handle(add_halfedge(", "n_edges()", "the created edge itself"),
            ("HFH", "add_halfface(", "n_faces()", "the halfface that occurs in the rebuilt cell"),
            ("HFH", "opposite_halfface_handle(add_halfface(", "n_faces()", "the other side of a created face (a boundary halfface)"),
            ("FH", "face_handle(add_halfface(", "n_faces()", "the created face itself"),
            ("CH", "add_cell(", None, "the rebuilt cell"))
    for kind, creator, count, role in WANT:
        if creator.startswith("opposite_") or creator.startswith("edge_handle(") or creator.startswith("face_handle("):
            hits = [h for h in seen.get(kind, []) if h[0].startswith(creator) or (creator.split("(")[0] + "(") in h[0] and creator.split("(", 1)[1] in h[0] and re.search(r"(edge_handle|face_handle|opposite_half(edge|face)_handle)\(", h[0]) and h[0].split("(")[0].split(".")[-1] == creator.split("(")[0]]
        else:
            hits = [h for h in seen.get(kind, []) if h[0].startswith(creator)]
        ok = bool(hits)
        (ck.ok if ok else lambda r, w, t: ck.violate(r, w, t, "C03.collapse:%s:%s" % (kind, creator.split("(")[0])))("C03.collapse", f.where, "collapse_edge: a property transfer (old, %s...)) carries the %s values of %s over (found %s)" % (creator, kind, role, [v[0][:40] for v in seen.get(kind, [])] or "no such call"))
        if count is None:
            continue
        def core_of(t_):
            k_ = t_.find("add_half")
            if k_ < 0:
                return t_
            d_ = 0
            for q_ in range(k_, len(t_)):
                if t_[q_] == "(":
                    d_ += 1
                elif t_[q_] == ")":
                    d_ -= 1
                    if d_ == 0:
                        return t_[k_:q_ + 1]
            return t_[k_:]
        for new, nm, b, x in hits:
            new = core_of(new)
            guarded = False
            for s_, p_, c_ in cn.facts(b):
                m = re.fullmatch(r"\((.+) (>=|>|<|<=) (.+)\)", s_)
                if not m:
                    continue
                l_, op, r_ = m.group(1), m.group(2), m.group(3)
                sides = (l_, r_)
                if any(new in z for z in sides) and any(z.replace("(size_t)", "").strip("()") in (count.strip("()"), count) or count in z for z in sides) and (("uidx()" in s_) or ("idx()" in s_)):
                    # new.idx >= count (true) or new.idx < count (false)
                    newer = (op in (">=", ">") and new in l_) or (op in ("<", "<=") and new in r_)
                    if newer == bool(p_):
                        guarded = True
            (ck.ok if guarded else lambda r, w, t: ck.violate(r, w, t, "C03.collapse:%s:%s:created" % (kind, creator.split("(")[0])))("C03.collapse", f.loc(x), "collapse_edge: %s values are transferred only to an entity created by this call (index compared with %s)" % (kind, count))
            (ck.ok if nm == "copy_property_elements" else lambda r, w, t: ck.violate(r, w, t, "C03.collapse:%s:%s:copy" % (kind, creator.split("(")[0])))("C03.collapse", f.loc(x), "collapse_edge: the %s transfer is a copy (found %s)" % (kind, nm))


def bool_storage_swap_rule(ck, fb):
    """PropertyStorageT<bool>::swap(i, j): std::vector<bool> has proxy references, and the kernel does swap an element with
    itself (collapse_edge re-creates entities that keep their handle): only the save-a-bool form is correct for i == j"""
    from .canon import Canon
    ck.rule("C03.boolswap", "PropertyStorageT<bool>::swap saves data_[i] in a local of type bool, then assigns data_[j] -> data_[i] and the saved value -> data_[j] (correct also for i == j, unlike arithmetic/xor swaps on the proxies)")
    fs = [f for f in fb.repo_fns() if f.name == "swap" and f.has_cfg and (f.cls or "").startswith("OpenVolumeMesh::PropertyStorageT<bool") and len(f.d["params"]) == 2 and f.d["params"][0]["t"] in ("size_t", "unsigned long")]
    if len(fs) != 1:
        raise AnalysisBroken("anchor vanished: PropertyStorageT<bool>::swap(size_t, size_t) (found %d)" % len(fs))
    f = fs[0]
    cn = Canon(f)
    decls = [v for v, b, i in cn.decl.values()]
    asg = []
    for b, i, x in f.tops():
        a = as_assign(x)
        if a:
            asg.append((b, i, cn.s(a[0]), cn.s(a[1])))
    asg.sort(key=lambda z: (-z[0], z[1]))
    tmp = cn.s(decls[0].get("init")) if len(decls) == 1 else ""
    ok = len(decls) == 1 and decls[0]["t"] == "bool" and len(asg) == 2 and "data_[P0]" in tmp and asg[0][2:] == ("data_[P0]", "data_[P1]") and asg[1][2] == "data_[P1]" and asg[1][3] == tmp
    (ck.ok if ok else lambda r, w, t: ck.violate(r, w, t, "C03.boolswap"))("C03.boolswap", f.where, "PropertyStorageT<bool>::swap: bool tmp = data_[i]; data_[i] = data_[j]; data_[j] = tmp (found locals %s, assignments %s)" % ([d["t"] for d in decls], ["%s = %s" % z[2:] for z in asg]))


def swap_bool_rule(ck, fb):
    """the deleted flags live in std::vector<bool>: its elements are proxy references, so the helper that exchanges two
    of them has to save the first *value* (a bool) - a saved proxy aliases the bit that is overwritten next"""
    from .canon import Canon
    ck.rule("C17.swapbool", "detail::swap_bool saves the first flag in a local of type bool (a value, not a vector<bool> proxy), then assigns second -> first and the saved value -> second")
    fs = [f for f in fb.repo_fns() if f.name == "swap_bool" and f.has_cfg]
    if len(fs) != 1:
        raise AnalysisBroken("anchor vanished: detail::swap_bool (found %d)" % len(fs))
    f = fs[0]
    cn = Canon(f)
    decls = [(v, b, i) for v, b, i in cn.decl.values()]
    asg = []
    for b, i, x in f.tops():
        a = as_assign(x)
        if a:
            asg.append((b, i, cn.s(a[0]), cn.s(a[1])))
    asg.sort(key=lambda z: (-z[0], z[1]))
    ok_t = len(decls) == 1 and decls[0][0]["t"] == "bool"
    tmp_init = cn.s(decls[0][0].get("init")) if decls else ""
    ok_shape = len(asg) == 2 and "P0" in tmp_init and "P1" not in tmp_init and asg[0][2:] == ("P0", "P1") and asg[1][2] == "P1" and asg[1][3] == tmp_init
    (ck.ok if ok_t else lambda r, w, t: ck.violate(r, w, t, "C17.swapbool:type"))("C17.swapbool", f.where, "swap_bool keeps the first flag in a local of type bool (found %s)" % [d[0]["t"] for d in decls])
    (ck.ok if ok_shape else lambda r, w, t: ck.violate(r, w, t, "C17.swapbool:shape"))("C17.swapbool", f.where, "swap_bool: tmp = a; a = b; b = tmp (found tmp = %s; %s)" % (tmp_init, ["%s = %s" % z[2:] for z in asg]))


# ------------------------------------------------------------------------------------ C17
def run_c17(ck, fb, fbd):
    c = Ctx(ck, fb)
    km = c.km
    ck.rule("L.swap", "each swap_K_indices swaps the definition, the deleted flag, the properties of K and of both half-kinds side by side, and the cache of K under its guard - under identical conditions")
    lockstep(c, "L.swap", ("swap",), {"flag", "props", "cache"}, skip_fns=("collapse_edge",))
    swaps = [f for f in c.fns if any(e["cls"] == "swap" and e["role"] in ("def", "flag") for e in c.eff.get(f.id, []))]
    ck.floor("swap_functions", len(swaps), 4)
    swap_bool_rule(ck, fb)
    ck.rule("C17.noop", "swapping a handle with itself returns before any effect: every effect site of swap_K_indices is guarded by !(_h1 == _h2)")
    for f in swaps:
        eq = None
        for b in f.blocks:
            t = f.term(b)
            if t and t.get("cond"):
                cnd = unwrap(f.resolve(t["cond"]))
                if isinstance(cnd, dict) and cnd.get("op") == "==" and {index_root(x) for x in ([cnd.get("r")] + cnd.get("a", []) if cnd.get("k") == "call" else [cnd.get("l"), cnd.get("r")])} == {p["n"] for p in f.d["params"]}:
                    eq = estr(cnd)
        if not eq:
            ck.violate("C17.noop", f.where, "%s has no _h1 == _h2 early return" % f.name, "C17.noop:%s" % f.pq)
            continue
        writes = 0
        bad = []
        for b, i, n in f.tops():
            if b not in f.reach():
                continue
            is_eff = False
            for x in walk(n):
                if x.get("k") in ("asg",) or (x.get("k") == "call" and (not x.get("cst") and x.get("r") is not None and x.get("pn", "").split("::")[-1] not in ("begin", "end", "size", "find", "idx", "halffaces", "halfedges", "is_valid"))):
                    m = [y for y in walk(x) if y.get("k") == "mem" and y.get("o") == TK]
                    if m and x.get("k") == "asg" or (x.get("k") == "call" and isinstance(unwrap(x.get("r")), dict) and any(y.get("k") == "mem" and y.get("o") == TK for y in walk(x.get("r")))):
                        is_eff = True
            if is_eff:
                writes += 1
                if (eq, False) not in {(estr(cn), p) for cn, p, e in f.facts(b)}:
                    bad.append(f.loc(n))
        (ck.ok if not bad else lambda r, w, t: ck.violate(r, w, t, "C17.noop:%s:effects" % f.pq))("C17.noop", f.where, "%s: all %d member-writing statements are behind !%s%s" % (f.name, writes, eq, (" except " + ", ".join(bad)) if bad else ""))
    relabel_rules(c, swaps)


def relabel_rules(c, swaps=None):
    ck, fb, km = c.ck, c.fb, c.km
    if swaps is None:
        swaps = [f for f in c.fns if any(e["cls"] == "swap" and e["role"] in ("def", "flag") for e in c.eff.get(f.id, []))]
        ck.floor("swap_functions", len(swaps), 4)
    from .rule_u import sorted_rule
    sorted_rule(ck, fb, lambda g: g.pq.startswith(TK + "::"), floor=2)
    # relabel siblings + processed sets
    ck.rule("C17.relabel", "both the cache-guided and the linear-scan branch rewrite references x/2==id1 -> id2 and x/2==id2 -> id1 keeping x%2; a 'processed' set in a guided branch lives outside the two-handle loop, is consulted before and filled after the rewrite, and is keyed by the entity whose definition/cache entry is rewritten")
    for f in swaps:
        sets = {}
        for b, i, n in f.nodes(("decl",)):
            for v in n["vars"]:
                if v["t"].startswith("std::set<"):
                    sets[v["id"]] = (v, (b, i))
        loops = f.loops()
        for vid, (v, pos) in sets.items():
            inloop = [h for h, body, backs in loops if pos[0] in body]
            (ck.ok if not inloop else lambda r, w, t: ck.violate(r, w, t, "C17.relabel:%s:%s:scope" % (f.pq, v["n"])))("C17.relabel", f.loc(v.get("init") or f.line), "%s: set %s is declared outside every loop (survives both swapped handles)" % (f.name, v["n"]))
            finds, inserts = [], []
            for b, i, n in f.nodes(("call",)):
                r = unwrap(f.resolve(n.get("r"))) if n.get("r") is not None else None
                if isinstance(r, dict) and r.get("k") == "var" and r.get("id") == vid:
                    nm = n.get("pn", "").split("::")[-1]
                    if nm == "find" or nm == "count":
                        finds.append((b, i, index_root(f.resolve(n["a"][0]))))
                    if nm == "insert":
                        inserts.append((b, i, index_root(f.resolve(n["a"][0]))))
            ok = bool(finds) and bool(inserts) and {x[2] for x in finds} == {x[2] for x in inserts}
            key = inserts[0][2] if inserts else None
            (ck.ok if ok else lambda r, w, t: ck.violate(r, w, t, "C17.relabel:%s:%s:protocol" % (f.pq, v["n"])))("C17.relabel", f.where, "%s: set %s is consulted (find) and filled (insert) with the same key %s" % (f.name, v["n"], key))
            # the key names the rewritten entry
            rew = set()
            for n, parents, p in iter_sites(f):
                if n.get("k") == "idx":
                    bb = unwrap(n["b"])
                    if isinstance(bb, dict) and bb.get("k") == "mem" and bb.get("o") == TK and "HandleIndexing" in bb.get("t", ""):
                        if inserts and f.dominates(p, (inserts[0][0], inserts[0][1])) or inserts and p[0] == inserts[0][0]:
                            rew.add(index_root(n["i"]))
            ok = key in rew
            (ck.ok if ok else lambda r, w, t: ck.violate(r, w, t, "C17.relabel:%s:%s:key" % (f.pq, v["n"])))("C17.relabel", f.where, "%s: key %s of %s is the index of the entry that is rewritten (indexed entries before the insert: %s)" % (f.name, key, v["n"], sorted(x for x in rew if x)))
        ck.count("processed_sets", len(sets))
        relabel_loops(ck, f, sets, loops)
        relabel_lambdas(ck, fb, f, sets)
        # rewrite pattern present in both branches of each has_* split
        pats = []
        for b in f.reach():
            t = f.term(b)
            if t and t.get("cond"):
                cn = unwrap(f.resolve(t["cond"]))
                s = estr(cn)
                if "/ 2)" in s and "==" in s:
                    pats.append((b, s, atoms_at(f, b)))
        hs = {a for _, _, at in pats for a in at if a[0].startswith("has_")}
        for (hname, _) in {(a[0], 0) for a in hs}:
            t_n = sum(1 for _, _, at in pats if (hname, True) in at)
            f_n = sum(1 for _, _, at in pats if (hname, False) in at)
            if f_n == 0 and t_n > 0 and hname.replace("has_", "").split("_")[0] in ("face", "edge", "vertex") and not any((hname, False) in atoms_at(f, b) for b in f.reach()):
                continue  # cache-only rewrite (no linear-scan sibling needed: nothing to fix without the cache)
            ok = t_n >= 2 and f_n >= 2
            (ck.ok if ok else lambda r, w, t: ck.violate(r, w, t, "C17.relabel:%s:%s:siblings" % (f.pq, hname)))("C17.relabel", f.where, "%s: id1<->id2 rewrite tests present in both the %s branch (%d) and its linear-scan sibling (%d)" % (f.name, hname, t_n, f_n))


def swap_id_exprs(cn):
    """predicate on canonical strings: is this the identity of one of the swapped handles?  P0, P1, their idx()/uidx(), and
    elements of a local array/vector that is filled with nothing else (`ids`)"""
    import re
    from .canon import Canon
    base = re.compile(r"P[01](\.u?idx\(\))?")

    def strip(x):
        x = x.strip()
        while True:
            m = re.fullmatch(r"\((?:unsigned int|int|size_t|unsigned long|std::size_t|long)\)(.*)", x)
            if m:
                x = m.group(1).strip()
                continue
            if x.startswith("(") and x.endswith(")") and split_balanced(x):
                x = x[1:-1].strip()
                continue
            return x

    idvars = set()
    for vid, ms in cn.mods.items():
        if cn.kind.get(vid) != "mut":
            continue
        ops = []
        for kind, b, i, m in ms:
            if m.get("k") == "call" and m.get("pn", "").split("::")[-1] in ("push_back", "emplace_back") and m.get("a"):
                ops.append(strip(cn.s(m["a"][0])))
            else:
                ops = None
                break
        if ops and all(base.fullmatch(o) for o in ops):
            idvars.add(cn._name[vid])
    for vid, (v, b, i) in cn.decl.items():
        if cn.kind.get(vid) == "pure" and v.get("init") is not None and "[" in v.get("t", ""):
            pass  # a pure array local is inlined as its initialiser list by Canon

    def is_id(x):
        x = strip(x)
        if base.fullmatch(x):
            return True
        m = re.fullmatch(r"(v\d+)\[[^\]]*\]", x)
        return bool(m and m.group(1) in idvars)
    return is_id


def split_balanced(x):
    """True when the outermost parentheses of x enclose the whole string"""
    d = 0
    for i, ch in enumerate(x):
        if ch == "(":
            d += 1
        elif ch == ")":
            d -= 1
            if d == 0 and i != len(x) - 1:
                return False
    return d == 0


def relabel_lambdas(ck, fb, f, sets):
    """a local lambda of a swap function that performs the pairwise exchange (assigns one swapped handle where the other
    was found) is one *pass* per invocation: invoked for the definition of each of the two handles in turn, it rewrites an
    entry that both definitions list twice, i.e. back to the old value (round 5, C09i) - the same defect as two sequential
    loops, which the intra-procedural `passes` rule sees"""
    from .canon import Canon
    import re
    pnames = {p["n"] for p in f.d["params"][:2]}
    HANDLE = ("OpenVolumeMesh::VH", "OpenVolumeMesh::EH", "OpenVolumeMesh::HEH", "OpenVolumeMesh::FH", "OpenVolumeMesh::HFH", "OpenVolumeMesh::CH")
    cnf = Canon(f)
    for g in fb.fns.values():
        if g.kind != "lambda" or g.d.get("lambda_parent") != f.id or not g.has_cfg:
            continue
        cg = Canon(g)
        targets = set()
        for b, i, x in g.tops():
            if b not in g.reach():
                continue
            a = as_assign(x)
            if not a:
                continue
            l = unwrap(g.resolve(a[0]))
            t = (l.get("t") or l.get("rt") or "") if isinstance(l, dict) else ""
            r = cg.s(a[1]).strip()
            r = re.sub(r"\.u?idx\(\)$", "", r)
            if any(h in t for h in HANDLE) and r in pnames:
                targets.add(r)
        if len(targets) < 2:
            continue
        tag = "[lambda@%d]" % g.line
        calls = [(b, i, x) for b, i, x in f.tops() if b in f.reach() and cnf.s(x).lstrip("(").startswith(tag + " ()")]
        inloop = [c_ for c_ in calls if any(c_[0] in body for hdr, body, backs in f.loops())]
        if len(calls) >= 2 or inloop:
            if sets:
                ck.cannot_judge("C17.relabel %s: %s: an exchanging lambda is invoked more than once together with a processed set (unknown protocol)" % (f.loc(calls[0][2]), f.name))
            else:
                ck.violate("C17.relabel", f.loc(calls[-1][2]), "%s: the pairwise exchange of the two handles is performed by a lambda (line %d) that is invoked %d time(s)%s - one pass per definition: an entry listed by both definitions is rewritten by the first pass and rewritten back by the second" % (f.name, g.line, len(calls), " inside a loop" if inloop else ""), "C17.relabel:%s:passes" % f.pq)
        elif calls:
            ck.ok("C17.relabel", f.loc(calls[0][2]), "%s: the exchanging lambda (line %d) is invoked once, outside every loop" % (f.name, g.line))


def relabel_loops(ck, f, sets, loops):
    """(a) a cache-guided loop over BOTH swapped handles that rewrites handles protects every rewrite by a processed set (an
    entity incident to both handles - parallel edges included - must be relabelled once); (b) a loop that rewrites handles
    (assignment / push_back of a handle under an id test) is never left early: every stored reference has to be visited"""
    from .canon import Canon, split_eq
    import re
    cn = Canon(f)
    HANDLE = ("OpenVolumeMesh::VH", "OpenVolumeMesh::EH", "OpenVolumeMesh::HEH", "OpenVolumeMesh::FH", "OpenVolumeMesh::HFH", "OpenVolumeMesh::CH")

    def rewrites(body):
        out = []
        for b, i, x in f.tops():
            if b not in body:
                continue
            a = as_assign(x)
            if a:
                l = unwrap(f.resolve(a[0]))
                t = (l.get("t") or l.get("rt") or "") if isinstance(l, dict) else ""
                if any(h in t for h in HANDLE) and not t.endswith("bool"):
                    out.append((b, i, x))
            elif x.get("k") == "call" and x.get("pn", "").split("::")[-1] in ("set_from_vertex", "set_to_vertex", "push_back", "emplace_back", "replace") and b in f.reach():
                rt = x.get("rt") or x.get("cc") or ""
                if x.get("pn", "").split("::")[-1] in ("push_back", "emplace_back") and not any(h in rt for h in HANDLE):
                    continue
                out.append((b, i, x))
        return out

    is_id = swap_id_exprs(cn)

    def idfact(s_):
        if "/ 2)" in s_ and "==" in s_:
            return True
        r_ = split_eq(s_)
        return bool(r_) and (is_id(r_[1]) != is_id(r_[2]))
    idtest = lambda b_: any(idfact(s_) for s_, p_, c_ in cn.facts(b_))
    both_handles = set()
    for hdr, body, backs in loops:
        t = f.term(hdr)
        if t and t.get("cond") and re.fullmatch(r"\(it\d+\(0\) < 2\w*\)", cn.s(t["cond"])):
            both_handles |= set(body)
    # every handle rewrite of a cache-guided branch lies in a loop over the two swapped handles: any other way to enumerate
    # the entities around both handles (a merged list, two sequential passes) needs its own argument why an entity incident
    # to both is relabelled exactly once - not judged here
    def exchange(r_):
        # `if (entry == h_a) entry = h_b;` over the definition of h_a: the pairwise exchange of a single-valued cache
        a_ = as_assign(r_[2])
        if not a_ or not is_id(cn.s(a_[1])):
            return False
        l_ = cn.s(a_[0])
        for s_, p_, c_ in cn.facts(r_[0]):
            q_ = split_eq(s_)
            if q_ and p_ is (q_[0] == "==") and ((q_[1] == l_ and is_id(q_[2])) or (q_[2] == l_ and is_id(q_[1]))):
                return True
        return False
    # the cache-guided branch reaches the referring entities through the bottom-up lists, from which deferred-deleted entities
    # have been unlinked: their stored definitions keep the old handle, while the linear-scan sibling rewrites them too (F59)
    if f.name in ("swap_vertex_indices", "swap_edge_indices", "swap_face_indices") and ck.pid in ("C17", "C12"):
        # only the two statements that speak about the definitions of deleted entities (C17: "exchanged everywhere ... one or
        # both deleted"; C12: "the same mesh - definitions ... - as with all of them enabled")
        g_ = [r_ for r_ in rewrites(f.reach()) if idtest(r_[0]) and any(a[0].startswith("has_") and a[1] is True for a in atoms_at(f, r_[0]))]
        covers = any(p_ is True and ("is_deleted(" in s_ or "_deleted_[" in s_) for r_ in rewrites(f.reach()) for s_, p_, c_ in cn.facts(r_[0]))
        if g_:
            (ck.ok if covers else lambda r_, w_, t_: ck.violate(r_, w_, t_, "C17.deleted:%s" % f.name))("C17.relabel", f.where, "%s: the cache-guided relabel also rewrites the definitions of deferred-deleted entities that refer to the swapped handles (they are no longer linked in the caches the branch walks; the linear-scan branch rewrites them)" % f.name)
    # pairwise exchange `if (e == h1) e = h2; else if (e == h2) e = h1;` has to be ONE decision per entry: two passes - first
    # h1 -> h2 over the definition of h1, then h2 -> h1 over that of h2 - rewrite an entry twice when both definitions
    # list it (a deferred-deleted cell and the cell added on its halffaces)
    exs = []
    for r_ in rewrites(f.reach()):
        if exchange(r_):
            inner = [h_ for h_, body_, backs_ in sorted(loops, key=lambda z: len(z[1])) if r_[0] in body_]
            a_ = as_assign(r_[2])
            exs.append((cn.s(a_[1]), inner[0] if inner else None, r_))
    heads = {h_ for v_, h_, r_ in exs}
    if len({v_ for v_, h_, r_ in exs}) >= 2 and len(heads) >= 2:
        r_ = exs[-1][2]
        ck.violate("C17.relabel", f.loc(r_[2]), "%s: the pairwise exchange of the two handles is split into sequential passes (%s): an entry listed by both definitions is rewritten by the first pass and rewritten back by the second" % (f.name, ", then ".join("-> %s" % v_ for v_, h_, r2 in exs)), "C17.relabel:%s:passes" % f.pq)
    elif exs:
        ck.ok("C17.relabel", f.loc(exs[0][2][2]), "%s: the pairwise exchange (%d rewrite sites) is one decision per entry" % (f.name, len(exs)))
    for r_ in rewrites(f.reach()):
        if exchange(r_):
            continue
        if idtest(r_[0]) and any(a[0].startswith("has_") and a[1] is True for a in atoms_at(f, r_[0])) and r_[0] not in both_handles:
            ck.cannot_judge("C17.relabel %s: %s: a handle rewrite in a cache-guided branch is not inside a loop over the two swapped handles (unknown enumeration of the entities to relabel: %s)" % (f.loc(r_[2]), f.name, cn.s(r_[2])[:80]))
    def statement_body(hdr, body):
        """the blocks of the loop *statement*: the natural loop plus the blocks that leave it (a rewrite followed by break or
        return is not part of the natural loop - it cannot reach the back edge - but it is part of the loop's text)"""
        ent = [s_ for s_ in f.succ(hdr) if s_ in body and s_ != hdr]
        ext = set(body)
        for e_ in ent:
            ext |= {b_ for b_ in f.reach() if b_ != 0 and f.dominates((e_, 0), (b_, 0))}
        return ext

    def directional(r_):
        # std::replace(first, last, old, new) with an operand that names a swapped handle: a one-way substitution
        x_ = r_[2]
        return x_.get("pn", "") == "std::replace" and len(x_.get("a", [])) == 4 and bool(cn.deps(x_["a"][2]) | cn.deps(x_["a"][3]))

    for hdr, body, backs in loops:
        t = f.term(hdr)
        cond = cn.s(t["cond"]) if t and t.get("cond") else ""
        nat = body
        body = statement_body(hdr, body)
        rw = [r_ for r_ in rewrites(body) if idtest(r_[0]) or directional(r_) or r_[2].get("pn", "").split("::")[-1] in ("set_from_vertex", "set_to_vertex")]
        if not rw:
            continue
        guided = any(a[0].startswith("has_") and a[1] is True for a in atoms_at(f, hdr)) or any(a[0].startswith("has_") and a[1] is True for r_ in rw for a in atoms_at(f, r_[0]))
        if re.fullmatch(r"\(it\d+\(0\) < 2\w*\)", cond) and guided:
            # (a) both-handles loop in a cache-guided branch
            from .canon import eq_match

            def not_yet_processed(s_, p_):
                # find(k) == end() holds, or count(k) == 0 holds
                return bool(eq_match(s_, "==", r".*\.find\(.*\)", r".*\.end\(\)", pol=p_, want="==")) or bool(eq_match(s_, "==", r".*\.count\(.*\)", r"0", pol=p_, want="=="))
            for r_ in rw:
                if directional(r_):
                    ck.violate("C17.relabel", f.loc(r_[2]), "%s: the loop over both swapped handles substitutes one way only (%s): the pass for the second handle rewrites again what the pass for the first produced whenever both handles touch the same list" % (f.name, cn.s(r_[2])[:90]), "C17.relabel:%s:directional" % f.pq)
            unprotected = [r_ for r_ in rw if not directional(r_) and not any(not_yet_processed(s_, p_) for s_, p_, c_ in cn.facts(r_[0]))]
            (ck.ok if not unprotected else lambda r, w, t_: ck.violate(r, w, t_, "C17.relabel:%s:once" % f.pq))("C17.relabel", f.loc(t), "%s: every handle rewrite in the cache-guided loop over both swapped handles is behind a processed-set test (%d rewrite site(s), %d unprotected)" % (f.name, len(rw), len(unprotected)))
        # (b) no early exit from a rewriting loop
        inner = [h2 for h2, b2, k2 in loops if h2 != hdr and h2 in body]
        early = sorted({bb for bb in body if bb != hdr and any(s_ is not None and s_ not in body for s_ in f.succ(bb))} | (body - nat))
        (ck.ok if not early else lambda r, w, t_: ck.violate(r, w, t_, "C17.relabel:%s:early:%s" % (f.pq, cond[:30])))("C17.relabel", f.loc(t) if t else f.where, "%s: the loop (%s) that rewrites handles visits every entry (no break/return)%s" % (f.name, cond[:40], "" if not early else " - left early from block(s) %s" % early))


# ------------------------------------------------------------------------------------ C01: the values that are linked / unlinked
def cache_value_sites(f, cn, caches):
    """(cache, kind, canonical index, canonical value, node) for element-level updates cache[I].push_back(V), cache[I] = V and
    cache[I].erase(remove(.., V), ..)"""
    out = []

    def cache_idx(n):
        n = unwrap(n)
        if isinstance(n, dict) and n.get("k") == "idx":
            b = unwrap(n.get("b"))
            if isinstance(b, dict) and b.get("k") == "mem" and b.get("f") in caches:
                return b["f"], n.get("i")
        return None

    for b, i, x in f.tops():
        if b not in f.reach():
            continue
        a = as_assign(x)
        if a:
            ci = cache_idx(f.resolve(a[0]))
            if ci:
                out.append((ci[0], "assign", cn.s(ci[1]), cn.s(a[1]), x))
            continue
        if x.get("k") == "call" and x.get("r") is not None:
            nm = x.get("pn", "").split("::")[-1]
            ci = cache_idx(f.resolve(x["r"]))
            if not ci:
                continue
            if nm in ("push_back", "emplace_back") and x.get("a"):
                out.append((ci[0], "push", cn.s(ci[1]), cn.s(x["a"][0]), x))
            elif nm == "erase":
                for y in walk(f.resolve(x.get("a", []))):
                    if isinstance(y, dict) and y.get("k") == "call" and y.get("pn", "") == "std::remove" and len(y.get("a", [])) == 3:
                        out.append((ci[0], "remove", cn.s(ci[1]), cn.s(y["a"][2]), x))
    return out


def value_rules(c, cores):
    """which handle is linked / unlinked where (canonical forms; the new entity E is the one created by the growth)"""
    import re
    from .canon import Canon
    ck, fb = c.ck, c.fb
    ck.rule("C01.value", "the linked values are the right ones: add_edge(a,b) pushes halfedge (e,0) at a and (e,1) at b; add_face pushes halfface (f,0) at every halfedge h of f and (f,1) at opposite(h); add_cell assigns c at every halfface of c; delete_edge_core removes (e,0) at from(e) and (e,1) at to(e); delete_face_core removes (f,0) at every halfedge h of f and (f,1) at opposite(h); delete_cell_core resets the entries of the halffaces of c - e/f/c being the new resp. the deleted entity")
    vc, ec, fc = km_cache(c, "Vertex"), km_cache(c, "Edge"), km_cache(c, "Face")
    caches = {vc, ec, fc}

    def judge(ok, f, what, key):
        (ck.ok if ok else lambda r, w, t: ck.violate(r, w, t, "C01.value:" + key))("C01.value", f.where, what)

    def grown(f, kind):
        return [x for x in c.fn(f) if any(e["cls"] == "grow" and e["role"] == "def" and e["kind"] == kind for e in c.eff.get(x.id, []))]

    # add_edge
    for f in grown("add_edge", "Edge"):
        cn = Canon(f)
        sites = [s for s in cache_value_sites(f, cn, caches) if s[0] == vc and s[1] == "push"]
        got = sorted((s[2], s[3]) for s in sites)
        m = [re.fullmatch(r"halfedge_handle\((.+), ([01])\)", v) for i_, v in got]
        ok = len(got) == 2 and all(m) and {(got[k][0], m[k].group(2)) for k in range(2)} == {("P0", "0"), ("P1", "1")} and m[0].group(1) == m[1].group(1) and "edges_.size() - 1" in m[0].group(1)
        judge(ok, f, "add_edge links halfedge (e,0) at the from-vertex and (e,1) at the to-vertex of the new edge e (%s)" % got, "add_edge")
    # add_face
    for f in grown("add_face", "Face"):
        cn = Canon(f)
        sites = [s for s in cache_value_sites(f, cn, caches) if s[0] == ec and s[1] == "push"]
        got = sorted((s[2], s[3]) for s in sites)
        ok = len(got) == 2
        if ok:
            byv = {}
            for i_, v in got:
                mm = re.fullmatch(r"halfface_handle\((.+), ([01])\)", v)
                if mm:
                    byv[mm.group(2)] = (i_, mm.group(1))
            ok = set(byv) == {"0", "1"} and byv["0"][1] == byv["1"][1] and "faces_.size() - 1" in byv["0"][1]
            if ok:
                H, F = byv["0"]
                ok = H.startswith("each(") and F in H and "halfedges" in H and byv["1"][0] in ("opposite_halfedge_handle(%s)" % H, "%s.opposite_handle()" % H)
        judge(ok, f, "add_face links halfface (f,0) at every halfedge h of the new face f and (f,1) at opposite(h) (%s)" % [(a[:60], b[:50]) for a, b in got], "add_face")
    # add_cell
    for f in grown("add_cell", "Cell"):
        cn = Canon(f)
        sites = [s for s in cache_value_sites(f, cn, caches) if s[0] == fc and s[1] == "assign"]
        ok = len(sites) == 1
        if ok:
            I, V = sites[0][2], sites[0][3]
            ok = "cells_.size() - 1" in V and I.startswith("each(") and "halffaces" in I and V in I
        judge(ok, f, "add_cell assigns the new cell c at every halfface of c (%s)" % [(s[2][:60], s[3][:40]) for s in sites], "add_cell")
    # delete cores
    f = cores["Edge"]
    cn = Canon(f)
    sites = [s for s in cache_value_sites(f, cn, caches) if s[0] == vc and s[1] == "remove"]
    got = sorted((s[2], s[3]) for s in sites)
    ok = len(got) == 2
    if ok:
        mm = [(re.fullmatch(r"edge\((.+)\)\.(from|to)_vertex\(\)", i_), re.fullmatch(r"halfedge_handle\((.+), ([01])\)", v)) for i_, v in got]
        ok = all(a and b for a, b in mm) and {(a.group(2), b.group(2)) for a, b in mm} == {("from", "0"), ("to", "1")} and len({a.group(1) for a, b in mm} | {b.group(1) for a, b in mm}) == 1
    judge(ok, f, "delete_edge_core removes halfedge (e,0) at from(e) and (e,1) at to(e) (%s)" % got, "delete_edge_core")
    f = cores["Face"]
    cn = Canon(f)
    sites = [s for s in cache_value_sites(f, cn, caches) if s[0] == ec and s[1] == "remove"]
    got = sorted((s[2], s[3]) for s in sites)
    ok = len(got) == 2
    if ok:
        byv = {}
        for i_, v in got:
            mm = re.fullmatch(r"halfface_handle\((.+), ([01])\)", v)
            if mm:
                byv[mm.group(2)] = (i_, mm.group(1))
        ok = set(byv) == {"0", "1"} and byv["0"][1] == byv["1"][1]
        if ok:
            H, F = byv["0"]
            ok = ("face(%s).halfedges()" % F in H or "face_halfedges(%s" % F in H) and byv["1"][0] in ("opposite_halfedge_handle(%s)" % H, "%s.opposite_handle()" % H)
    judge(ok, f, "delete_face_core removes halfface (f,0) at every halfedge h of f and (f,1) at opposite(h) (%s)" % [(a[:60], b[:40]) for a, b in got], "delete_face_core")
    f = cores["Cell"]
    cn = Canon(f)
    sites = [s for s in cache_value_sites(f, cn, caches) if s[0] == fc and s[1] == "assign"]
    ok = len(sites) >= 1 and all(s[3] == "InvalidCellHandle" and re.search(r"cell\((.+)\)\.halffaces\(\)|cell_halffaces\(", s[2]) for s in sites)
    judge(ok, f, "delete_cell_core resets the entries of the halffaces of the deleted cell (%s)" % [(s[2][:60], s[3]) for s in sites], "delete_cell_core")


def value_rules_rebuild(c):
    """the same link values in the rebuild (compute_*) and in set_edge/set_face/set_cell"""
    import re
    from .canon import Canon
    ck, fb = c.ck, c.fb
    if "C01.value" not in ck.rules:
        ck.rule("C01.value", "the rebuild functions compute_*_bottom_up_incidences (and set_edge/set_face/set_cell) link exactly the values the mutators link: halfedge (e,0) at from(e) and (e,1) at to(e); halfface (f,0) at every halfedge h of f and (f,1) at opposite(h); c at every halfface of c")
    vc, ec, fc = km_cache(c, "Vertex"), km_cache(c, "Edge"), km_cache(c, "Face")
    caches = {vc, ec, fc}

    def judge(ok, f, what, key):
        (ck.ok if ok else lambda r, w, t: ck.violate(r, w, t, "C01.value:" + key))("C01.value", f.where, what)

    def half_pairs(sites, hh, elem_of):
        """sites [(index, value)] must be {(H, hh(X,0)), (opp(H), hh(X,1))} resp. for vertices {(from(X), hh(X,0)), (to(X), hh(X,1))}"""
        by = {}
        for i_, v in sites:
            mm = re.fullmatch(r"%s\((.+), ([01])\)" % hh, v)
            if mm:
                by[mm.group(2)] = (i_, mm.group(1))
        if set(by) != {"0", "1"} or by["0"][1] != by["1"][1] or len(sites) != 2:
            return False, None
        return True, (by["0"][0], by["1"][0], by["0"][1])

    for cache, k in c.cm.kinds.items():
        f = fb.fns[k["compute"]]
        cn = Canon(f)
        sites = [(s[2], s[3]) for s in cache_value_sites(f, cn, caches) if s[0] == cache and s[1] in ("push", "assign")]
        if cache == vc:
            ok, r = half_pairs(sites, "halfedge_handle", None)
            ok = ok and r[0] == "edge(%s).from_vertex()" % r[2] and r[1] == "edge(%s).to_vertex()" % r[2] and r[2] in ("each(edges())",)
        elif cache == ec:
            ok, r = half_pairs(sites, "halfface_handle", None)
            ok = ok and r[2] == "each(faces())" and r[0].startswith("each(") and r[2] in r[0] and "halfedges" in r[0] and r[1] in ("opposite_halfedge_handle(%s)" % r[0], "%s.opposite_handle()" % r[0])
        else:
            ok = len(sites) == 1 and sites[0][1] == "each(cells())" and sites[0][0].startswith("each(") and "each(cells())" in sites[0][0][5:] and "halffaces" in sites[0][0]
        judge(ok, f, "%s rebuilds %s with the same values the mutators link (%s)" % (f.name, cache, [(a[:60], b[:40]) for a, b in sites]), f.name)
    for name, cache in (("set_edge", vc), ("set_face", ec), ("set_cell", fc)):
        f = c.fn(name)[0]
        cn = Canon(f)
        sites = [(s[2], s[3]) for s in cache_value_sites(f, cn, caches) if s[0] == cache and s[1] in ("push", "assign") and s[3] != "InvalidCellHandle"]
        if cache == vc:
            ok, r = half_pairs(sites, "halfedge_handle", None)
            ok = ok and r == ("P1", "P2", "P0")
        elif cache == ec:
            ok, r = half_pairs(sites, "halfface_handle", None)
            ok = ok and r[2] == "P0" and bool(re.fullmatch(r"\*it\d+\(P1\.begin\(\)\)|each\(P1\)", r[0])) and r[1] in ("opposite_halfedge_handle(%s)" % r[0], "%s.opposite_handle()" % r[0])
        else:
            ok = len(sites) == 1 and sites[0][1] == "P0" and bool(re.fullmatch(r"\*it\d+\(P1\.begin\(\)\)|each\(P1\)", sites[0][0]))
        judge(ok, f, "%s links the new definition with the values add_* would use (%s)" % (name, [(a[:50], b[:40]) for a, b in sites]), name)
