"""Fact base and the derived CFG analyses shared by all rules:
reference resolution, dominators, edge guards, expression printing, call graph."""
import re
from collections import defaultdict


def walk(node, follow=None):
    """pre-order walk over an expression tree (dict/list); refs are not followed
    unless follow is an Fn (then the referenced element is walked in place)."""
    stack = [node]
    while stack:
        n = stack.pop()
        if isinstance(n, dict):
            if follow is not None and n.get("k") == "ref":
                stack.append(follow.elem(n["b"], n["i"]))
                continue
            yield n
            for v in n.values():
                if isinstance(v, (dict, list)):
                    stack.append(v)
        elif isinstance(n, list):
            stack.extend(reversed(n))


class Fn:
    def __init__(self, d, fb):
        self.d = d
        self.fb = fb
        self.id = d["id"]
        self.name = d["name"]
        self.pq = d.get("pq", d["name"])
        self.qual = d.get("qual", "")
        self.diag = d.get("diag", "")
        self.cls = d.get("cls")
        self.clsq = d.get("clsq")
        self.file = d["file"]
        self.line = d["line"]
        self.kind = d["kind"]
        cfg = d.get("cfg")
        self.has_cfg = bool(cfg)
        self.blocks = {}
        self.entry = self.exit = None
        if cfg:
            self.entry, self.exit = cfg["entry"], cfg["exit"]
            for b in cfg["blocks"]:
                self.blocks[b["id"]] = b
        self._succ = None
        self._pred = None
        self._dom = None
        self._pdom = None
        self._eguards = None
        self._resolved = {}
        self._tops = None
        self._reach = None

    def __repr__(self):
        return "<Fn %s %s:%d>" % (self.diag or self.pq, self.file.split("/")[-1], self.line)

    @property
    def where(self):
        return "%s:%d" % (self.file, self.line)

    def loc(self, node_or_line):
        ln = node_or_line.get("ln") if isinstance(node_or_line, dict) else node_or_line
        return "%s:%s" % (self.file, ln if ln else self.line)

    # ------------------------------------------------------------ structure
    def succ(self, b):
        if self._succ is None:
            self._succ = {}
            self._pred = defaultdict(list)
            for bid, blk in self.blocks.items():
                ss = []
                for s in blk["s"]:
                    if isinstance(s, int):
                        ss.append(s)
                    else:
                        ss.append(None)
                self._succ[bid] = ss
                for s in ss:
                    if s is not None:
                        self._pred[s].append(bid)
        return self._succ[b]

    def pred(self, b):
        self.succ(self.entry)
        return self._pred.get(b, [])

    def elem(self, b, i):
        return self.blocks[b]["e"][i]

    def elements(self):
        """all CFG elements: (block id, index, node)"""
        for bid, blk in self.blocks.items():
            for i, e in enumerate(blk["e"]):
                yield bid, i, e

    def resolve(self, node):
        """deep copy of node with refs replaced by the referenced elements"""
        if isinstance(node, list):
            return [self.resolve(x) for x in node]
        if not isinstance(node, dict):
            return node
        if node.get("k") == "ref":
            key = (node["b"], node["i"])
            r = self._resolved.get(key)
            if r is None:
                r = self.resolve(self.elem(*key))
                if isinstance(r, dict):
                    r = dict(r)
                    r["_at"] = key
                self._resolved[key] = r
            return r
        return {k: (self.resolve(v) if isinstance(v, (dict, list)) else v) for k, v in node.items()}

    def relem(self, b, i):
        return self.resolve({"k": "ref", "b": b, "i": i})

    def tops(self):
        """top-level elements (not referenced from another element): (b, i, resolved node)"""
        if self._tops is None:
            refd = set()
            for b, i, e in self.elements():
                for n in walk(e):
                    if n.get("k") == "ref":
                        refd.add((n["b"], n["i"]))
            self._tops = [(b, i, self.relem(b, i)) for b, i, e in self.elements() if (b, i) not in refd]
        return self._tops

    def nodes(self, kinds=None):
        """every AST node exactly once: (b, i, node) with node unresolved"""
        for b, i, e in self.elements():
            for n in walk(e):
                if kinds is None or n.get("k") in kinds:
                    yield b, i, n

    def calls(self):
        return self.nodes(("call", "ctor", "icall"))

    # ------------------------------------------------------------ reachability / dominance
    def reachable_from(self, start, skip_edge=None):
        seen = {start}
        st = [start]
        while st:
            b = st.pop()
            for k, s in enumerate(self.succ(b)):
                if s is None or (skip_edge is not None and skip_edge == (b, k)):
                    continue
                if s not in seen:
                    seen.add(s)
                    st.append(s)
        return seen

    def reach(self):
        if self._reach is None:
            self._reach = self.reachable_from(self.entry)
        return self._reach

    def dominators(self):
        """dom[b] = set of blocks dominating b (including b)"""
        if self._dom is None:
            nodes = list(self.reach())
            allb = set(nodes)
            dom = {b: set(allb) for b in nodes}
            dom[self.entry] = {self.entry}
            changed = True
            while changed:
                changed = False
                for b in nodes:
                    if b == self.entry:
                        continue
                    ps = [p for p in self.pred(b) if p in allb]
                    new = set.intersection(*(dom[p] for p in ps)) if ps else set()
                    new = new | {b}
                    if new != dom[b]:
                        dom[b] = new
                        changed = True
            self._dom = dom
        return self._dom

    def postdominators(self):
        if self._pdom is None:
            nodes = [b for b in self.reach()]
            allb = set(nodes)
            pdom = {b: set(allb) for b in nodes}
            pdom[self.exit] = {self.exit}
            changed = True
            while changed:
                changed = False
                for b in nodes:
                    if b == self.exit:
                        continue
                    ss = [s for s in self.succ(b) if s is not None and s in allb]
                    new = set.intersection(*(pdom[s] for s in ss)) if ss else set()
                    new = new | {b}
                    if new != pdom[b]:
                        pdom[b] = new
                        changed = True
            self._pdom = pdom
        return self._pdom

    def dominates(self, a, b):
        """position a=(blk,idx) dominates position b=(blk,idx)"""
        (ab, ai), (bb, bi) = a, b
        if ab == bb:
            return ai < bi
        d = self.dominators()
        return bb in d and ab in d[bb]

    def branch_edges(self):
        out = []
        for bid in self.reach():
            ss = self.succ(bid)
            if len(ss) >= 2:
                for k in range(len(ss)):
                    out.append((bid, k))
        return out

    def edge_guards(self):
        """block -> frozenset of branch edges (B,k) that lie on every entry path to the block"""
        if self._eguards is None:
            reach = self.reach()
            g = {b: set() for b in reach}
            for (B, k) in self.branch_edges():
                ss = self.succ(B)
                if ss[k] is None:
                    continue
                # parallel edges to the same successor carry no information
                if sum(1 for s in ss if s == ss[k]) > 1:
                    continue
                r = self.reachable_from(self.entry, skip_edge=(B, k))
                for b in reach:
                    if b not in r:
                        g[b].add((B, k))
            self._eguards = {b: frozenset(v) for b, v in g.items()}
        return self._eguards

    def guards(self, b):
        """list of (cond resolved, polarity, (B,k)) holding whenever block b executes.
        polarity True = condition true.  switch edges give ('case', value)."""
        out = []
        for (B, k) in sorted(self.edge_guards().get(b, ())):
            blk = self.blocks[B]
            t = blk.get("t")
            if not t:
                continue
            cond = t.get("cond")
            if cond is None:
                continue
            c = self.resolve(cond)
            if t["c"] == "SwitchStmt":
                tgt = self.succ(B)[k]
                lab = self.blocks[tgt].get("label") if tgt is not None else None
                out.append((c, ("case", self.resolve(lab)), (B, k)))
                continue
            if len(self.succ(B)) != 2:
                continue
            pol = (k == 0)
            c, pol = strip_not(c, pol)
            out.append((c, pol, (B, k)))
        return out

    def facts(self, b):
        """guards(b) decomposed into atomic facts: (!x,p)->(x,!p); (a&&b,T)->a,b true; (a||b,F)->a,b false"""
        out = []
        for c, pol, edge in self.guards(b):
            if not isinstance(pol, bool):
                out.append((c, pol, edge))
                continue
            st = [(c, pol)]
            while st:
                x, p = st.pop()
                x, p = strip_not(unwrap(x), p)
                x = unwrap(x)
                if isinstance(x, dict) and x.get("k") == "bin" and ((x["op"] == "&&" and p) or (x["op"] == "||" and not p)):
                    st.append((x["l"], p))
                    st.append((x["r"], p))
                else:
                    out.append((x, p, edge))
        # de-duplicate
        seen, res = set(), []
        for x, p, e in out:
            k = (estr(x), str(p))
            if k not in seen:
                seen.add(k)
                res.append((x, p, e))
        return res

    def is_exit_path_free(self, b):
        return b in self.reach()

    def term(self, b):
        return self.blocks[b].get("t")

    def loops(self):
        """natural loops: list of (header, body blocks set, back-edge sources)"""
        dom = self.dominators()
        res = {}
        for b in self.reach():
            for s in self.succ(b):
                if s is not None and s in dom.get(b, ()):  # back edge b->s
                    body = {s, b}
                    st = [b]
                    while st:
                        x = st.pop()
                        if x == s:
                            continue
                        for p in self.pred(x):
                            if p not in body and p in self.reach():
                                body.add(p)
                                st.append(p)
                    h = res.setdefault(s, [set(), []])
                    h[0] |= body
                    h[1].append(b)
        return [(h, v[0], v[1]) for h, v in res.items()]


def strip_not(c, pol):
    while isinstance(c, dict) and c.get("k") == "un" and c.get("op") == "!":
        c = c["x"]
        pol = not pol
    return c, pol


def unwrap(n):
    """strip value-preserving wrappers"""
    while isinstance(n, dict):
        k = n.get("k")
        if k in ("upcast", "defarg", "definit"):
            n = n["x"]
        elif k == "cast" and n.get("ck") in ("static", "functional", "cstyle") and n.get("clk") in ("NoOp", "IntegralCast", "LValueToRValue", "IntegralToBoolean"):
            n = n["x"]
        elif k == "ctor" and (n.get("copy") or n.get("move")) and len(n.get("a", [])) == 1:
            n = n["a"][0]
        else:
            break
    return n


def as_assign(n):
    """(lhs, rhs, op) for a built-in assignment or an overloaded operator= / compound assignment call"""
    if not isinstance(n, dict):
        return None
    if n.get("k") == "asg":
        return n["l"], n["r"], n["op"]
    if n.get("k") == "call" and n.get("op") in ("=", "+=", "-=", "*=", "/=") and n.get("r") is not None and len(n.get("a", [])) == 1:
        return n["r"], n["a"][0], n["op"]
    return None


def short_type(t):
    t = t.replace("OpenVolumeMesh::", "")
    return t


def estr(n, depth=0):
    """compact C-like rendering of a resolved expression (for reports / keys)"""
    if n is None:
        return ""
    if isinstance(n, list):
        return ", ".join(estr(x, depth) for x in n)
    if not isinstance(n, dict):
        return str(n)
    if depth > 12:
        return "..."
    k = n.get("k")
    d = depth + 1
    if k == "ref":
        return "<ref %s.%s>" % (n["b"], n["i"])
    if k in ("upcast", "defarg", "definit"):
        return estr(n["x"], d)
    if k == "var":
        return n["n"]
    if k == "this":
        return "this"
    if k == "mem":
        b = n["b"]
        if isinstance(b, dict) and b.get("k") == "this":
            return n["f"]
        return estr(b, d) + "." + n["f"]
    if k == "lit":
        v = n["v"]
        if isinstance(v, bool):
            return "true" if v else "false"
        if n.get("t") == "str":
            return '"%s"' % v
        return str(v)
    if k == "enum":
        return n["n"].replace("OpenVolumeMesh::", "")
    if k == "bin":
        return "(%s %s %s)" % (estr(n["l"], d), n["op"], estr(n["r"], d))
    if k == "asg":
        return "%s %s %s" % (estr(n["l"], d), n["op"], estr(n["r"], d))
    if k == "un":
        op = n["op"]
        if op.startswith("post"):
            return estr(n["x"], d) + op[4:]
        if op.startswith("pre"):
            return op[3:] + estr(n["x"], d)
        return op + estr(n["x"], d)
    if k == "idx":
        return "%s[%s]" % (estr(n["b"], d), estr(n["i"], d))
    if k == "cond":
        return "(%s ? %s : %s)" % (estr(n["c"], d), estr(n["a"], d), estr(n["b"], d))
    if k == "call":
        name = n.get("pn", n["n"]).split("::")[-1]
        args = estr(n.get("a", []), d)
        if n.get("op") and "r" in n:
            if not n.get("a"):
                return "%s%s" % (n["op"], estr(n["r"], d))
            return "(%s %s %s)" % (estr(n["r"], d), n["op"], args)
        if n.get("op") and len(n.get("a", [])) == 2:
            return "(%s %s %s)" % (estr(n["a"][0], d), n["op"], estr(n["a"][1], d))
        if "r" in n and n["r"] is not None:
            r = estr(n["r"], d)
            if r == "this":
                return "%s(%s)" % (name, args)
            return "%s.%s(%s)" % (r, name, args)
        return "%s(%s)" % (name, args)
    if k == "icall":
        return "%s(%s)" % (estr(n["f"], d), estr(n.get("a", []), d))
    if k == "ctor":
        a = n.get("a", [])
        if (n.get("copy") or n.get("move")) and len(a) == 1:
            return estr(a[0], d)
        return "%s(%s)" % (short_type(n["t"]).split("<")[0].split("::")[-1], estr(a, d))
    if k == "cast":
        return "(%s)%s" % (short_type(n["t"]), estr(n["x"], d))
    if k == "ret":
        return "return %s" % estr(n.get("x"), d)
    if k == "throw":
        return "throw %s" % estr(n.get("x"), d)
    if k == "decl":
        return "; ".join("%s %s = %s" % (short_type(v["t"]), v["n"], estr(v.get("init"), d)) for v in n["vars"])
    if k == "lambda":
        return "[lambda@%s]" % n.get("ln")
    if k == "initlist":
        return "{%s}" % estr(n["a"], d)
    if k == "fnref":
        return n["n"].split("::")[-1]
    if k == "sizeof":
        return "sizeof(%s)" % short_type(n["t"])
    if k == "minit":
        return "%s(%s)" % (n.get("f") or n.get("base") or "delegate", estr(n.get("x"), d))
    if k == "new":
        return "new %s(%s)" % (short_type(n["t"]), estr(n.get("x"), d))
    if k == "zeroinit":
        return "%s()" % short_type(n["t"])
    if k == "dtor":
        return "~%s" % (n.get("n") or short_type(n.get("t", "")))
    if k == "unk":
        return "%s{%s}" % (n.get("c"), estr(n.get("a", []), d))
    return k or "?"


def local_names(f, fb=None):
    """names of all parameters and locals of f (and of the lambdas defined in it)"""
    names = {p["n"] for p in f.d["params"]}
    for b, i, n in f.nodes(("decl", "var")):
        if n.get("k") == "decl":
            names |= {v["n"] for v in n["vars"]}
        elif n.get("s") in ("local", "param", "binding"):
            names.add(n["n"])
    if fb is not None:
        for g in fb.fns.values():
            if g.kind == "lambda" and (g.d.get("lambda_parent") or "").startswith(f.id):
                names |= local_names(g)
    return names


def need_names(f, names, fb=None, what=""):
    """rules written against named locals/parameters of one function declare them here: if the function no longer
    uses these identifiers the idiom has changed and the rule cannot judge it (exit 2, never a violation)"""
    from .extract import AnalysisBroken
    have = local_names(f, fb)
    missing = [n for n in names if n not in have]
    if missing:
        raise AnalysisBroken("%s: %s no longer uses the local/parameter name(s) %s the rule %s was written against - idiom changed, re-audit the rule" % (f.where, f.pq.split("::")[-1], missing, what))


class FactBase:
    def __init__(self, raw):
        self.raw = raw
        self.fns = {fid: Fn(d, self) for fid, d in raw["functions"].items()}
        self.records = raw["records"]
        self.enums = raw["enums"]
        self.vars = raw["vars"]
        self.units = raw["units"]
        self.by_pq = defaultdict(list)
        self.by_cls = defaultdict(list)
        for f in self.fns.values():
            self.by_pq[f.pq].append(f)
            if f.cls:
                self.by_cls[f.cls].append(f)
        self._callers = None
        self._overriders = None
        self._lambda_def = None
        self._bases = None

    # repository functions only (instantiation units / fixtures excluded)
    def repo_fns(self):
        return [f for f in self.fns.values() if "/src/OpenVolumeMesh/" in f.file]

    def fn(self, pq, **kw):
        """unique function by plain qualified name (+ optional filters)"""
        c = self.by_pq.get(pq, [])
        for k, v in kw.items():
            c = [f for f in c if f.d.get(k) == v]
        return c

    def overriders(self, fid):
        """transitive set of functions overriding fid (ids)"""
        if self._overriders is None:
            direct = defaultdict(set)
            for f in self.fns.values():
                for o in f.d.get("overrides", []):
                    direct[o].add(f.id)
            for r in self.records.values():
                pass
            self._overriders = direct
        out, st = set(), [fid]
        while st:
            x = st.pop()
            for o in self._overriders.get(x, ()):
                if o not in out:
                    out.add(o)
                    st.append(o)
        return out

    def callees(self, f, virtual_fanout=True):
        """resolved callees of f: list of (b, i, node, callee Fn or None)"""
        out = []
        for b, i, n in f.calls():
            u = n.get("u")
            tgt = self.fns.get(u) if u else None
            out.append((b, i, n, tgt))
            if virtual_fanout and n.get("v") and u:
                for o in self.overriders(u):
                    if o in self.fns:
                        out.append((b, i, n, self.fns[o]))
        return out

    def callers(self, fid):
        if self._callers is None:
            self._callers = defaultdict(list)
            for f in self.fns.values():
                if not f.has_cfg:
                    continue
                for b, i, n in f.calls():
                    u = n.get("u")
                    if u:
                        self._callers[u].append((f, b, i, n))
            # virtual fan-out: a call of a base method may reach an overrider
            for f in self.fns.values():
                for o in f.d.get("overrides", []):
                    pass
        res = list(self._callers.get(fid, ()))
        f = self.fns.get(fid)
        if f is not None:
            # calls that name an overridden base method virtually may dispatch here
            seen = set()
            st = list(f.d.get("overrides", []))
            while st:
                o = st.pop()
                if o in seen:
                    continue
                seen.add(o)
                for (cf_, b, i, n) in self._callers.get(o, ()):
                    if n.get("v"):
                        res.append((cf_, b, i, n))
                of = self.fns.get(o)
                if of is not None:
                    st.extend(of.d.get("overrides", []))
        return res

    def lambda_def(self, lam_fn):
        """(parent Fn, b, i) of the element that creates the lambda"""
        if self._lambda_def is None:
            self._lambda_def = {}
            for f in self.fns.values():
                if not f.has_cfg:
                    continue
                for b, i, n in f.nodes(("lambda",)):
                    if n.get("u"):
                        self._lambda_def.setdefault(n["u"], (f, b, i))
        base = lam_fn.d.get("lambda_base") or lam_fn.id
        return self._lambda_def.get(base)

    def bases(self, cls):
        """transitive base classes of a record (by canonical name)"""
        out, st = [], [cls]
        while st:
            c = st.pop()
            r = self.records.get(c)
            if not r:
                continue
            for b in r["bases"]:
                if b["t"] not in out:
                    out.append(b["t"])
                    st.append(b["t"])
        return out

    def derived_from(self, cls, base):
        return cls == base or base in self.bases(cls)
