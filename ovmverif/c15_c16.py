"""C15 (tetrahedral kernel) and C16 (hexahedral kernel): literal tables, compile-time witnesses, shape guards."""
import re
from itertools import permutations

from .canon import ceq, eq_match, split_eq
from .extract import AnalysisBroken
from .facts import as_assign, estr, need_names, unwrap, walk
from .readers import cmp_parts, strip_casts
from .witness import compile_witness
from . import c11
from .c04_c09 import mode_changes

TK = "OpenVolumeMesh::TopologyKernel"
TET = "OpenVolumeMesh::TetrahedralMeshTopologyKernel"
HEX = "OpenVolumeMesh::HexahedralMeshTopologyKernel"


def src_order(f, items):
    """sort (b, i, node) by source line, then CFG order"""
    return sorted(items, key=lambda z: (z[2].get("ln") or 0, -z[0], z[1]))


def vertex_tuples(f, param_name):
    """simulates the local vector that is filled with param[k] and handed to find_halfface*/add_face:
    returns list of (callee bare name, tuple of indices, line)"""
    ev = []
    for b, i, x in f.nodes(("call",)):
        if b not in f.reach():
            continue
        nm = x.get("pn", "").split("::")[-1]
        if nm in ("push_back", "clear", "find_halfface", "find_halfface_extensive", "add_face") and (nm.startswith("find") or nm == "add_face" or (x.get("r") is not None and "std::vector<OpenVolumeMesh::VH>" in x.get("rt", ""))):
            ev.append((b, i, x))
    cur, out = [], []
    for b, i, x in src_order(f, ev):
        nm = x.get("pn", "").split("::")[-1]
        if nm == "push_back":
            a = unwrap(f.resolve(x["a"][0]))
            if isinstance(a, dict) and a.get("k") == "idx" and unwrap(a["b"]).get("n") == param_name and unwrap(strip_casts(a["i"])).get("k") == "lit":
                cur.append(unwrap(strip_casts(a["i"]))["v"])
            else:
                raise AnalysisBroken("%s: vertex list receives %s (not %s[k])" % (f.pq, estr(a), param_name))
        elif nm == "clear":
            cur = []
        else:
            out.append((nm, tuple(cur), x.get("ln")))
    return out


def directed_edges(t):
    return [(t[i], t[(i + 1) % len(t)]) for i in range(len(t))]


def closed_oriented(tuples):
    cnt = {}
    for t in tuples:
        for e in directed_edges(t):
            cnt[e] = cnt.get(e, 0) + 1
    return all(v == 1 for v in cnt.values()) and all((b, a) in cnt for (a, b) in cnt)


def perm_sign(p):
    inv = sum(1 for i in range(len(p)) for j in range(i + 1, len(p)) if p[i] > p[j])
    return 1 if inv % 2 == 0 else -1


def list_source(f):
    """the one local/parameter of type std::vector<VH> whose elements are picked by literal index in the braced
    four-element lists of f (found by role, not by name)"""
    cnt = {}
    for b, i, x in f.nodes(("initlist", "ctor")):
        items = x.get("a", [])
        if len(items) != 4:
            continue
        for it in items:
            it = unwrap(f.resolve(it))
            while isinstance(it, dict) and it.get("k") == "ctor" and len(it.get("a", [])) == 1:
                it = unwrap(it["a"][0])
            if isinstance(it, dict) and it.get("k") == "idx" and unwrap(strip_casts(it["i"])).get("k") == "lit":
                bse = unwrap(it["b"])
                if isinstance(bse, dict) and bse.get("k") == "var" and "std::vector<OpenVolumeMesh::VH" in bse.get("t", ""):
                    cnt[bse["n"]] = cnt.get(bse["n"], 0) + 1
    if not cnt:
        raise AnalysisBroken("%s: %s: no braced list indexing a vertex vector with literal indices - idiom changed, re-audit rule C15.perm" % (f.where, f.name))
    return max(cnt, key=cnt.get)


def init_lists(f, var_name):
    """braced lists {v[i],v[j],v[k],v[l]} over one local: (indices, block, line)"""
    out = []
    for b, i, x in f.nodes(("initlist", "ctor")):
        if b not in f.reach():
            continue
        items = x.get("a", [])
        if len(items) != 4:
            continue
        idxs = []
        for it in items:
            it = unwrap(f.resolve(it))
            while isinstance(it, dict) and it.get("k") == "ctor" and len(it.get("a", [])) == 1:
                it = unwrap(it["a"][0])
            if isinstance(it, dict) and it.get("k") == "idx" and unwrap(it["b"]).get("n") == var_name and unwrap(strip_casts(it["i"])).get("k") == "lit":
                idxs.append(unwrap(strip_casts(it["i"]))["v"])
            else:
                idxs.append(estr(it))
        out.append((tuple(idxs), b, x.get("ln") or 0))
    # initializer lists appear twice (initlist + the vector ctor); dedupe by line+content
    seen, res = set(), []
    for t in out:
        if (t[0], t[2]) not in seen:
            seen.add((t[0], t[2]))
            res.append(t)
    return res


# ------------------------------------------------------------------------------------------------ C15
def run_c15(ck, fb, fbd):
    # the tet queries return vertices in the rotation of the *halfface* they were asked for (shared with C08)
    from .c08 import orient
    orient(ck, fb)
    ck.rule("C15.labels", "static_assert witnesses over the constexpr TetTopology tables: names encode vertices (12 halfedge, 24 halfface labels), opposite/forward/inner/outer bit arithmetic, distinct vertices, opposite-vertex groups, rotations, orientation parity, hfl_hel joins consecutive vertices")
    compile_witness(ck, "C15.labels", "c15_tettopology.cc", compilers=("clang++", "g++") if ck.tier == "thorough" else ("clang++",))
    ck.rule("C15.dispatch", "the run-time label dispatch of TetTopology::triangle_topology maps every HalfFaceLabel case to the template instance of exactly that label")
    dd = [f for f in fb.fns.values() if f.has_cfg and f.pq.endswith("detail::dynamic_dispatch") and "/Unstable/Topology/" in f.file]
    if not dd:
        raise AnalysisBroken("anchor vanished: detail::dynamic_dispatch (TetTopology.cc)")
    enum = fb.enums.get("OpenVolumeMesh::TetTopology::HalfFaceLabel")
    if not enum:
        raise AnalysisBroken("enum TetTopology::HalfFaceLabel not found")
    val_of = {e["n"]: e["v"] for e in enum["enumerators"]}
    name_of = {e["v"]: e["n"] for e in enum["enumerators"]}
    for f in dd[:2]:
        seen = {}
        for b, blk in f.blocks.items():
            lab = blk.get("label")
            if not lab or "case" not in lab:
                continue
            cv = unwrap(f.resolve(lab["case"]))
            case_val = cv.get("v") if isinstance(cv, dict) else None
            # the dummy type constructed in this block
            tys = set()
            for i, e in enumerate(blk["e"]):
                for y in walk(e):
                    if isinstance(y, dict) and y.get("k") in ("ctor", "zeroinit") and "integral_constant<" in y.get("t", ""):
                        tys.add(y["t"])
            targ = None
            for t in tys:
                inner = t.split("HalfFaceLabel,")[-1].strip(" >")
                inner = inner.replace("OpenVolumeMesh::TetTopology::", "")
                if inner in val_of:
                    targ = val_of[inner]
                else:
                    import re
                    m = re.search(r"(\d+)\s*$", inner)
                    if m:
                        targ = int(m.group(1))
            if case_val is None or targ is None:
                raise AnalysisBroken("C15: dynamic_dispatch: case block %s not recognised (case %s, types %s)" % (b, case_val, sorted(tys)))
            seen[case_val] = targ
            ok = case_val == targ
            (ck.ok if ok else lambda r, w, t: ck.violate(r, w, t, "C15.dispatch:%s" % name_of.get(case_val, case_val)))("C15.dispatch", f.loc(blk["e"][0] if blk["e"] else f.line), "case %s dispatches to hfl_dummy<%s>" % (name_of.get(case_val, case_val), name_of.get(targ, targ)))
        missing = sorted(set(val_of.values()) - set(seen))
        (ck.ok if not missing else lambda r, w, t: ck.violate(r, w, t, "C15.dispatch:missing"))("C15.dispatch", f.where, "all %d halfface labels have a case (missing: %s)" % (len(val_of), [name_of[m] for m in missing]))
    # permutation literals
    ck.rule("C15.perm", "every braced {vhs[i],vhs[j],vhs[k],vhs[l]} in get_cell_vertices is an even permutation that puts the tested vertex first (the halfface/halfedge overload keeps index 3 last); add_cell(4 vertices) and add_cell(v0..v3) build the faces (0,1,2),(0,2,3),(0,3,1),(1,3,2) - a closed oriented surface; split_edge/split_face replace exactly one vertex per new cell at pairwise different positions")
    gcv = [f for f in fb.by_cls.get(TET, []) if f.name == "get_cell_vertices" and f.has_cfg]
    n_lit = 0
    for f in gcv:
        ps = [p["t"] for p in f.d["params"]]
        if len(ps) != 2:
            continue
        src_v = list_source(f)
        halfedge_overload = "HEH" in ps[1]
        for idxs, b, ln in init_lists(f, src_v):
            if not all(isinstance(v, int) for v in idxs):
                continue
            n_lit += 1
            where = "%s:%s" % (f.file, ln)
            ok = sorted(idxs) == [0, 1, 2, 3] and perm_sign(idxs) == 1
            (ck.ok if ok else lambda r, w, t: ck.violate(r, w, t, "C15.perm:%s:%s" % (f.name, idxs)))("C15.perm", where, "get_cell_vertices: {%s} is an even permutation" % ",".join(map(str, idxs)))
            if halfedge_overload:
                ok = idxs[3] == 3
                (ck.ok if ok else lambda r, w, t: ck.violate(r, w, t, "C15.perm:%s:%s:apex" % (f.name, idxs)))("C15.perm", where, "get_cell_vertices(hfh,heh): {%s} keeps the apex (index 3) last" % ",".join(map(str, idxs)))
            # the tested vertex comes first: the guard compares vhs[k] with the requested vertex and the list starts with k
            tested = None
            for c, pol, e in f.facts(b):
                p = cmp_parts(c)
                if p and p[0] == "==" and pol is True:
                    l = unwrap(strip_casts(p[1]))
                    if isinstance(l, dict) and l.get("k") == "idx" and unwrap(l["b"]).get("n") == src_v:
                        tested = unwrap(strip_casts(l["i"])).get("v")
            if tested is not None and not (halfedge_overload and idxs == (0, 1, 2, 3)):
                first_ok = idxs[0] == tested or (halfedge_overload and idxs[1] == tested)
                (ck.ok if first_ok else lambda r, w, t: ck.violate(r, w, t, "C15.perm:%s:%s:first" % (f.name, idxs)))("C15.perm", where, "get_cell_vertices: under vhs[%s]==v the list {%s} starts with index %s" % (tested, ",".join(map(str, idxs)), tested))
    ck.floor("permutation_literals", n_lit, 5)
    want = {(0, 1, 2), (0, 2, 3), (0, 3, 1), (1, 3, 2)}
    f4 = [f for f in fb.by_cls.get(TET, []) if f.name == "add_cell" and f.has_cfg and len(f.d["params"]) == 2 and "VH" in f.d["params"][0]["t"]]
    if not f4:
        raise AnalysisBroken("anchor vanished: TetrahedralMeshTopologyKernel::add_cell(vertices)")
    tl = vertex_tuples(f4[0], f4[0].d["params"][0]["n"])
    finds = [t for nm, t, ln in tl if nm.startswith("find")]
    adds = [t for nm, t, ln in tl if nm == "add_face"]
    ok = set(finds) == want and closed_oriented(finds) and finds == adds
    (ck.ok if ok else lambda r, w, t: ck.violate(r, w, t, "C15.perm:add_cell4"))("C15.perm", f4[0].where, "add_cell(4 vertices): looked-up faces %s = created faces %s = closed oriented tetrahedron" % (finds, adds))
    f5 = [f for f in fb.by_cls.get(TET, []) if f.name == "add_cell" and f.has_cfg and len(f.d["params"]) == 5]
    if not f5:
        raise AnalysisBroken("anchor vanished: TetrahedralMeshTopologyKernel::add_cell(v0..v3)")
    pn = [p["n"] for p in f5[0].d["params"][:4]]
    tup = []
    for b, i, x in src_order(f5[0], [(b, i, x) for b, i, x in f5[0].nodes(("call",)) if x.get("pn", "").endswith("::add_halfface") and len(x.get("a", [])) >= 3]):
        a = [unwrap(y) for y in f5[0].resolve(x["a"][:3])]
        tup.append(tuple(pn.index(y["n"]) for y in a if isinstance(y, dict) and y.get("n") in pn))
    ok = tup == finds and closed_oriented(tup)
    (ck.ok if ok else lambda r, w, t: ck.violate(r, w, t, "C15.perm:add_cell_v"))("C15.perm", f5[0].where, "add_cell(v0,v1,v2,v3) builds the same four oriented faces %s" % tup)
    for name, n_new in (("split_edge", 2), ("split_face", 3)):
        f = [g for g in fb.by_cls.get(TET, []) if g.name == name and g.has_cfg]
        if not f:
            raise AnalysisBroken("anchor vanished: TetrahedralMeshTopologyKernel::" + name)
        f = f[0]
        lists = [ix for ix, b, ln in init_lists(f, list_source(f))]
        pos = []
        good = True
        for ix in lists:
            repl = [k for k, v in enumerate(ix) if not isinstance(v, int)]
            keep = all(v == k for k, v in enumerate(ix) if isinstance(v, int))
            if len(repl) != 1 or not keep:
                good = False
            else:
                pos.append(repl[0])
        ok = good and len(lists) == n_new and len(set(pos)) == n_new
        (ck.ok if ok else lambda r, w, t: ck.violate(r, w, t, "C15.perm:%s" % name))("C15.perm", f.where, "%s creates %d cells, each replacing exactly one vertex, at pairwise different positions %s" % (name, n_new, pos))
    tet_occupied_rule(ck, fb, f4[0])
    get_label_rule(ck, fb)
    opposite_rule(ck, fb)
    four_vertices_rule(ck, fb)
    tet_vertex_iter_rule(ck, fb)
    collapse_cells_rule(ck, fb)
    # split_edge / split_face / collapse_edge delete cells in deferred mode and add new ones on the same halffaces: the
    # delete core must not reset a halfface's incident cell that already names the replacement (shared with C01/C02/C04)
    from . import lockstep
    lc = lockstep.Ctx(ck, fb)
    lockstep.owner_rule(lc, lockstep.delete_cores(lc), lockstep.elem_effects(lc))
    # collapse_edge prediction
    ck.rule("C15.predict", "collapse_edge/split_* run with deferred deletion forced on: an index prediction that follows a deletion in the same function must use physical counts (n_vertices()), never logical ones (n_logical_*), and the mode is restored on every path (P)")
    n_pred = 0
    canary = False
    for f in [g for g in fb.fns.values() if g.has_cfg and (g.cls == TET or "/verif/fixtures/canary_c15" in g.file)]:
        if not mode_changes(f) and "/verif/fixtures/" not in f.file:
            continue
        dels = [(b, i) for b, i, x in f.nodes(("call",)) if x.get("pn", "").split("::")[-1] in ("delete_vertex", "delete_edge", "delete_face", "delete_cell") and b in f.reach()]
        for b, i, x in f.nodes(("call",)):
            if x.get("pn", "").split("::")[-1].startswith("n_logical_") and b in f.reach():
                after = any(db == b and di < i or (db != b and b in f.reachable_from(db)) for db, di in dels)
                n_pred += 1
                if "/verif/fixtures/" in f.file:
                    canary = canary or after
                    continue
                (ck.ok if not after else lambda r, w, t: ck.violate(r, w, t, "C15.predict:%s" % f.pq))("C15.predict", f.loc(x), "%s: %s is not evaluated after a (deferred) deletion in the same function" % (f.name, x["pn"].split("::")[-1]))
    ck.canary("canary_c15 (logical count read after a deferred deletion)", canary)
    for name in ("collapse_edge", "split_edge", "split_face"):
        f = [g for g in fb.by_cls.get(TET, []) if g.name == name and g.has_cfg]
        if not f:
            raise AnalysisBroken("anchor vanished: " + name)
        f = f[0]
        ch = mode_changes(f)
        saved = {v["id"] for b, i, d in f.nodes(("decl",)) for v in d["vars"] if v.get("init") is not None and "deferred_deletion_enabled()" in estr(f.resolve(v["init"]))}
        rest = [pos for pos, node, kind, arg in ch if kind == "call" and isinstance(arg, dict) and arg.get("id") in saved]
        pd = f.postdominators()
        ok = bool(rest) and any(p[0] in pd.get(f.entry, ()) for p in rest)
        (ck.ok if ok else lambda r, w, t: ck.violate(r, w, t, "C15.predict:%s:restore" % name))("C15.predict", f.where, "%s restores the saved deferred-deletion mode on every path" % name)
        if name == "collapse_edge":
            # the fast-deletion branch compares against the last physical index
            conds = [estr(f.resolve(f.term(b)["cond"])) for b in f.reach() if f.term(b) and f.term(b).get("cond")]
            ok = any("n_vertices()" in c and "- 1" in c and "to_vh.idx()" in c.replace("this.", "") for c in conds) or any("n_vertices()" in c and "- 1" in c for c in conds)
            (ck.ok if ok else lambda r, w, t: ck.violate(r, w, t, "C15.predict:collapse:last"))("C15.predict", f.where, "collapse_edge predicts the swap-with-last case by comparing with n_vertices() - 1")
    # valence guards (shared with C11)
    ck.rule("C11.valence", "tetrahedral add_face/add_cell reach the base implementation only with 3/4 entries and, for cells, only after rejecting faces of valence != 3")
    valence_guards(ck, fb, TET)


def valence_guards(ck, fb, cls):
    vals = c11.VALENCE[cls]
    for name in ("add_face", "add_cell"):
        fs = c11.handle_fns(fb, cls, name)
        if len(fs) != 1:
            raise AnalysisBroken("%s::%s override not found" % (cls, name))
        f = fs[0]
        p0 = f.d["params"][0]["n"]
        base_calls = [(b, i, x) for b, i, x in f.nodes(("call",)) if x.get("pn") == TK + "::" + name and b in f.reach()]
        want = "(%s.size() != %d)" % (p0, vals[name])
        ok = bool(base_calls) and all((want, False) in c11.atoms(f, b) for b, i, x in base_calls)
        (ck.ok if ok else lambda r, w, t: ck.violate(r, w, t, "C11.valence:%s:%s" % (cls.split("::")[-1], name)))("C11.valence", f.where, "%s::%s delegates only when !%s" % (cls.split("::")[-1], name, want))


# ------------------------------------------------------------------------------------------------ C16
def tet_occupied_rule(ck, fb, f):
    """add_cell(vertices, check): with the check on, a reused halfface that already bounds a cell rejects the cell"""
    from .canon import Canon
    ck.rule("C15.occupied", "TetrahedralMeshTopologyKernel::add_cell(vertices, check) rejects - with the check requested and face incidences available - a tetrahedron one of whose (looked-up or created) halffaces already has an incident cell, and rejects when the four halffaces use an edge other than exactly twice; only then is the base implementation called")
    cn = Canon(f)
    P = "P%d" % [k for k, p_ in enumerate(f.d["params"]) if p_["t"] == "bool"][0]
    occ = conn = False
    for b, i, x in f.tops():
        if x.get("k") != "ret" or b not in f.reach():
            continue
        r = cn.s(x.get("x"))
        if not (r in ("InvalidCellHandle", "(CH)CH(-1)", "CH(-1)")):
            continue
        fs = {(s_, p_) for s_, p_, c_ in cn.facts(b)}
        if (P, True) not in fs:
            continue
        if any((eq_match(s_, "!=", r"incident_cell\((.+)\)", r"InvalidCellHandle", pol=p_, want="!=") or (re.fullmatch(r"incident_cell\((.+)\)\.is_valid\(\)", s_) and p_ is True)) for s_, p_ in fs) and any(s_.startswith("has_f") and p_ is True for s_, p_ in fs):
            occ = True
        if any(eq_match(s_, "!=", r"(v\d+)\.size\(\)", r"\((v\d+)\.size\(\) \* 2\w*\)", pol=p_, want="!=") for s_, p_ in fs):
            conn = True
    delegates = [(b, x) for b, i, x in f.nodes(("call",)) if x.get("pn", "").endswith("TopologyKernel::add_cell") and b in f.reach()]
    if not occ and not conn and delegates and all(cn.s(x["a"][1]) == P for b, x in delegates if len(x.get("a", [])) > 1):
        # the flag is simply forwarded: the base class does test the edge count - but it has no occupied-halfface rejection
        (lambda r, w, t: ck.violate(r, w, t, "C15.occupied:forwarded"))("C15.occupied", f.where, "add_cell(vertices, check) forwards the check to the base implementation, which does not reject an occupied halfface")
        return
    (ck.ok if occ else lambda r, w, t: ck.violate(r, w, t, "C15.occupied:occupied"))("C15.occupied", f.where, "add_cell(vertices, check) rejects a tetrahedron with a halfface that already has an incident cell")
    (ck.ok if conn else lambda r, w, t: ck.violate(r, w, t, "C15.occupied:connected"))("C15.occupied", f.where, "add_cell(vertices, check) rejects unless the halffaces use #halfedges == 2 * #edges")


def four_vertices_rule(ck, fb):
    """a topology-checked tetrahedral add_cell counts the vertices of the given halffaces (F37)"""
    from .canon import Canon
    ck.rule("C15.fourvertices", "TetrahedralMeshTopologyKernel::add_cell(halffaces, check): with the check requested, the base implementation is reached only under the fact that a set filled with the end vertices of every halfedge of every given halfface has exactly four members, and the other side of that test rejects - four triangles whose halfedges match pairwise can be two disjoint 'pillows' with six vertices, for which get_cell_vertices() returns an empty vector that the tet vertex iterator indexes")
    fs = c11.handle_fns(fb, TET, "add_cell")
    if len(fs) != 1:
        raise AnalysisBroken("anchor vanished: TetrahedralMeshTopologyKernel::add_cell(halffaces)")
    f = fs[0]
    cn = Canon(f)
    bools = [k for k, p_ in enumerate(f.d["params"]) if p_["t"] == "bool"]
    if not bools:
        raise AnalysisBroken("TetrahedralMeshTopologyKernel::add_cell(halffaces): no bool parameter")
    P = "P%d" % bools[0]
    sets = {cn._name[vid]: vid for vid, (v, b, i) in cn.decl.items() if re.match(r"std::(set|unordered_set)<OpenVolumeMesh::VH", v.get("t", "")) and vid in cn._name}
    filled = {}
    for nm, vid in sets.items():
        for kind, b, i, m in cn.mods.get(vid, []):
            if m.get("pn", "").split("::")[-1] in ("insert", "emplace") and m.get("a"):
                filled.setdefault(nm, []).append(cn.s(m["a"][0]))
    HE = r"each\(halfface\(each\(P0\)\)\.halfedges\(\)\)"
    full = {nm for nm, args in filled.items() if any(re.fullmatch(r"(from_vertex_handle|to_vertex_handle)\(%s\)" % HE, a) or re.fullmatch(r"halfedge\(%s\)\.(from|to)_vertex\(\)" % HE, a) for a in args)}
    dl = [(b, i, x) for b, i, x in f.nodes(("call",)) if x.get("pn") == c11.TK + "::add_cell" and b in f.reach()]
    rej = [(b, i, x) for b, i, x in f.tops() if x.get("k") == "ret" and b in f.reach() and cn.s(x.get("x")) in ("InvalidCellHandle", "(CH)CH(-1)", "CH(-1)")]

    def count_fact(b, want_eq):
        for s_, p_, c_ in cn.facts(b):
            q = split_eq(s_)
            if not q:
                continue
            for nm in full:
                if {q[1], q[2]} == {"4", "%s.size()" % nm} and (((q[0] == "==") == bool(p_)) == want_eq):
                    return True
        return False
    if not full:
        anyset = bool(filled)
        if anyset:
            ck.cannot_judge("C15.fourvertices %s: a vertex set is built, but not from the end vertices of every halfedge of every given halfface (%s) - not judged" % (f.where, sorted(filled.items())[:1]))
        else:
            ck.violate("C15.fourvertices", f.where, "add_cell(halffaces, check) counts the vertices of the given halffaces when the check is requested (no vertex set is built)", "C15.fourvertices:none")
        return
    ok_rej = any((P, True) in {(s_, p_) for s_, p_, c_ in cn.facts(b)} and count_fact(b, False) for b, i, x in rej)
    (ck.ok if ok_rej else lambda r_, w_, t_: ck.violate(r_, w_, t_, "C15.fourvertices:reject"))("C15.fourvertices", f.where, "add_cell(halffaces, check) rejects when the halffaces do not span exactly four vertices")
    checked = [(b, i, x) for b, i, x in dl if (P, True) in {(s_, p_) for s_, p_, c_ in cn.facts(b)} or (P, False) not in {(s_, p_) for s_, p_, c_ in cn.facts(b)}]
    # the delegating call is shared by both settings of the flag: every path with the flag set passes the count test
    reach_ok = True
    for b, i, x in dl:
        fs_ = {(s_, p_) for s_, p_, c_ in cn.facts(b)}
        if (P, False) in fs_:
            continue
        if count_fact(b, True):
            continue
        # merged path: the block of the test (flag true) must lie on every flag-true path: the only predecessor chain with the
        # flag set comes through the equality side of the test
        preds_true = [pb for pb in f.reach() if b in f.succ(pb) and (P, True) in {(s_, p_) for s_, p_, c_ in cn.facts(pb)}]
        if not preds_true or not all(count_fact(pb, True) for pb in preds_true):
            reach_ok = False
    (ck.ok if reach_ok else lambda r_, w_, t_: ck.violate(r_, w_, t_, "C15.fourvertices:bypass"))("C15.fourvertices", f.where, "with the check requested the base implementation is reached only after the four-vertex test passed")


def tet_vertex_iter_rule(ck, fb):
    """the tet vertex iterator agrees with get_cell_vertices: slot k holds get_cell_vertices(cell)[k]"""
    from .canon import Canon
    ck.rule("C15.tviter", "TetVertexIter's constructor fills vertices_[k] with get_cell_vertices(cell)[k] for k = 0..3 (the same k on both sides, the iterator's own cell); another way of filling the slots is not judged")
    cands = [f for f in fb.fns.values() if f.has_cfg and f.pq == "OpenVolumeMesh::TetVertexIter::(ctor)" and f.file.endswith(".cc")]
    if len(cands) != 1:
        raise AnalysisBroken("anchor vanished: TetVertexIter constructor (%d candidates)" % len(cands))
    f = cands[0]
    cn = Canon(f)
    pairs = []
    other = []
    for b, i, x in f.tops():
        a = as_assign(x)
        if not a or b not in f.reach():
            continue
        l, r = cn.s(a[0]), cn.s(a[1])
        ml = re.fullmatch(r"vertices_\[(\d)\w*\]", l)
        if not ml:
            continue
        mr = re.fullmatch(r"P\d+\.get_cell_vertices\(P0\)\[(\d)\w*\]", r)
        if mr:
            pairs.append((int(ml.group(1)), int(mr.group(1)), x))
        else:
            other.append((l, r))
    if other or not pairs:
        ck.cannot_judge("C15.tviter %s: the vertex slots are not filled by vertices_[k] = get_cell_vertices(cell)[k] (%s) - not judged" % (f.where, other[:2]))
        return
    got = sorted((k, j) for k, j, x in pairs)
    ok = got == [(0, 0), (1, 1), (2, 2), (3, 3)]
    (ck.ok if ok else lambda r_, w_, t_: ck.violate(r_, w_, t_, "C15.tviter:slots"))("C15.tviter", f.where, "TetVertexIter: vertices_[k] = get_cell_vertices(cell)[k] for k = 0..3 (found %s)" % got)


def _top_split(s_, sep):
    """split s_ at the first top-level occurrence of sep"""
    d = 0
    for k, ch in enumerate(s_):
        if ch in "([":
            d += 1
        elif ch in ")]":
            d -= 1
        elif d == 0 and s_.startswith(sep, k):
            return s_[:k], s_[k + len(sep):]
    return None


def collapse_cells_rule(ck, fb):
    """collapse_edge(a->b): which cells vanish, which are rebuilt, and how (a replaced by b, order kept)"""
    from .canon import Canon
    ck.rule("C15.collapse", "collapse_edge(h), a = from(h), b = to(h): the collapsing set holds the valid incident cells of the halffaces around h; every cell around a that is not in it is rebuilt - halfface i from halfedge j of the old halfface i, in order (orientation preserved), each endpoint replaced by b exactly when it equals a (from for from, to for to); the old cell is deleted, a is deleted after the loop and the new cells are added after that")
    fs = [f for f in fb.by_cls.get(TET, []) if f.name == "collapse_edge" and f.has_cfg]
    if len(fs) != 1:
        raise AnalysisBroken("anchor vanished: TetrahedralMeshTopologyKernel::collapse_edge (%d)" % len(fs))
    f = fs[0]
    cn = Canon(f)
    A, B = "halfedge(P0).from_vertex()", "halfedge(P0).to_vertex()"
    # (a) collapsing set
    csets = {cn._name[vid]: vid for vid, (v, b, i) in cn.decl.items() if re.match(r"std::(set|unordered_set)<OpenVolumeMesh::CH", v.get("t", "")) and vid in cn._name}
    S = None
    for nm, vid in csets.items():
        for kind, b, i, m in cn.mods.get(vid, []):
            if m.get("pn", "").split("::")[-1] in ("insert", "emplace") and m.get("a"):
                arg = cn.s(m["a"][0])
                mm = re.fullmatch(r"incident_cell\((\*it\d+\(hehf_iter\(P0(, 1)?\)\))\)", arg)
                if mm and any(s_ == arg + ".is_valid()" and p_ is True for s_, p_, c_ in cn.facts(b)):
                    S = nm
    if S is None:
        ck.cannot_judge("C15.collapse %s: no set of the valid incident cells of the halffaces around the halfedge is built - not judged" % f.where)
        return
    ck.ok("C15.collapse", f.where, "the collapsing set %s holds the valid incident cells of hehf_iter(h)" % S)
    # (c) the rebuilt halfedges
    adds = [(b, i, x) for b, i, x in f.nodes(("call",)) if x.get("pn", "").endswith("::add_halfedge") and len(x.get("a", [])) == 2 and b in f.reach()]
    seen = set()
    judged = 0
    for b, i, x in adds:
        key = cn.s(x)
        if key in seen:
            continue
        seen.add(key)
        parts = []
        for which, a_ in (("from_vertex", x["a"][0]), ("to_vertex", x["a"][1])):
            t_ = cn.s(a_)
            while t_.startswith("(") and t_.endswith(")") and _top_split(t_[1:-1], " ? "):
                t_ = t_[1:-1]
                break
            q = _top_split(t_, " ? ")
            r_ = _top_split(q[1], " : ") if q else None
            parts.append((which, q[0] if q else None, r_[0] if r_ else None, r_[1] if r_ else None, t_))
        if any(p_[1] is None or p_[2] is None for p_ in parts):
            ck.cannot_judge("C15.collapse %s: the endpoints of a rebuilt halfedge are not written as `x == a ? b : x` (%s) - not judged" % (f.loc(x), parts[0][4][:70]))
            continue
        judged += 1
        ok = True
        why = []
        Es = []
        for which, cond, then, els, t_ in parts:
            q = split_eq(cond)
            E = None
            if q and q[0] == "==" and A in (q[1], q[2]):
                E = q[2] if q[1] == A else q[1]
            if E is None or then != B or els != E or not E.endswith("." + which + "()"):
                ok = False
                why.append("%s endpoint: %s" % (which.split("_")[0], t_[:80]))
            Es.append(E[:-len("." + which + "()")] if E and E.endswith("." + which + "()") else None)
        if ok and Es[0] != Es[1]:
            ok = False
            why.append("from and to are taken from different halfedges")
        mE = re.fullmatch(r"halfedge\(halfface\(cell\((.+)\)\.halffaces\(\)\[(it\d+)\(0\)\]\)\.halfedges\(\)\[(it\d+)\(0\)\]\)", Es[0] or "")
        if ok and not mE:
            ck.cannot_judge("C15.collapse %s: the old halfedge is not halfedge j of halfface i of the rebuilt cell (%s) - not judged" % (f.loc(x), (Es[0] or "")[:80]))
            continue
        (ck.ok if ok else lambda r_, w_, t_: ck.violate(r_, w_, t_, "C15.collapse:endpoints"))("C15.collapse", f.loc(x), "a rebuilt halfedge runs from (from == a ? b : from) to (to == a ? b : to) of the old halfedge%s" % ("" if ok else " - " + "; ".join(why)))
        if ok:
            C, I, J = mE.group(1), mE.group(2), mE.group(3)
            fs_ = {(s_, p_) for s_, p_, c_ in cn.facts(b)}
            # (b) which cells: every cell around a, not in the collapsing set
            in_set = [(s_, p_) for s_, p_ in fs_ if S + ".find(" in s_ or S + ".count(" in s_]
            okb = any(((split_eq(s_) or ("", "", ""))[0] == "!=" and p_ is False) or ((split_eq(s_) or ("", "", ""))[0] == "==" and p_ is True and ".find(" in s_) or (s_.startswith(S + ".count(") and p_ is False) for s_, p_ in in_set) and all(C in s_ for s_, p_ in in_set)
            (ck.ok if okb else lambda r_, w_, t_: ck.violate(r_, w_, t_, "C15.collapse:which"))("C15.collapse", f.loc(x), "a cell is rebuilt exactly when it is not in the collapsing set (facts %s)" % [(s_[:60], p_) for s_, p_ in in_set][:2])
            mC = re.fullmatch(r"each\((v\d+)\)", C)
            okc = False
            if mC:
                for vid, nm in cn._name.items():
                    if nm == mC.group(1):
                        okc = any(re.fullmatch(r"\*it\d+\(vc_iter\(%s(, 1)?\)\)" % re.escape(A), cn.s(m["a"][0])) for kind, bb, ii, m in cn.mods.get(vid, []) if m.get("pn", "").split("::")[-1] in ("push_back", "emplace_back") and m.get("a"))
            (ck.ok if okc else lambda r_, w_, t_: ck.violate(r_, w_, t_, "C15.collapse:around"))("C15.collapse", f.loc(x), "the candidates for rebuilding are all cells of vc_iter(a)")
            # (d) order kept: bounds (i < 4), (j < 3) and no early exit from these loops
            bounds = {s_ for s_, p_ in fs_ if p_ is True and re.fullmatch(r"\(it\d+\(0\) < \d\w*\)", s_)}
            okd = ("(%s(0) < 4)" % I) in bounds and ("(%s(0) < 3)" % J) in bounds
            (ck.ok if okd else lambda r_, w_, t_: ck.violate(r_, w_, t_, "C15.collapse:order"))("C15.collapse", f.loc(x), "halfface i = 0..3 and halfedge j = 0..2 are visited in order (%s)" % sorted(bounds))
    if not judged and not adds:
        ck.cannot_judge("C15.collapse %s: no add_halfedge call - the rebuild is written in another way" % f.where)
    # (e) order of the destructive steps
    dv = [(b, i) for b, i, x in f.nodes(("call",)) if x.get("pn", "").endswith("::delete_vertex") and b in f.reach() and cn.s(x["a"][0]) == A]
    dc = [(b, i) for b, i, x in f.nodes(("call",)) if x.get("pn", "").endswith("::delete_cell") and b in f.reach()]
    ac = [(b, i) for b, i, x in f.nodes(("call",)) if x.get("pn", "").endswith("::add_cell") and b in f.reach()]
    oke = len(dv) == 1 and bool(dc) and bool(ac) and all(f.dominates(dv[0], p_) for p_ in ac) and not any(f.dominates(dv[0], p_) for p_ in dc)
    if oke:
        ck.ok("C15.collapse", f.where, "old cells are deleted before delete_vertex(a), new cells are added after it (%d/%d/%d sites)" % (len(dc), len(dv), len(ac)))
    elif len(dv) == 1 and dc and ac:
        # with deletion deferred, another order of the three steps can give the same mesh: not a clause of the statement
        ck.cannot_judge("C15.collapse %s: delete_cell / delete_vertex(a) / add_cell occur in another order - not judged" % f.where)
    else:
        ck.violate("C15.collapse", f.where, "collapse_edge deletes the old cells, deletes a and adds the rebuilt cells (%d/%d/%d sites)" % (len(dc), len(dv), len(ac)), "C15.collapse:steps")


def opposite_rule(ck, fb):
    """halfface_opposite_vertex / vertex_opposite_halfface are defined by the stored cell, not by a position convention"""
    from .canon import Canon, split_eq
    ck.rule("C15.opposite", "vertex_opposite_halfface(c, v) returns a halfface taken from cell(c).halffaces() under the facts that none of its three vertices is v (and the invalid handle otherwise); halfface_opposite_vertex(h) is the apex get_cell_vertices(h)[3] of a non-boundary halfface and invalid on the boundary.  A position table (halfface k is opposite vertex k') presupposes the halfface order of add_cell(vertices) - cells added from halffaces have none - and is not judged")
    fs = [f for f in fb.by_cls.get(TET, []) if f.name == "vertex_opposite_halfface" and f.has_cfg]
    gs = [f for f in fb.by_cls.get(TET, []) if f.name == "halfface_opposite_vertex" and f.has_cfg]
    if len(fs) != 1 or len(gs) != 1:
        raise AnalysisBroken("anchor vanished: TetrahedralMeshTopologyKernel::vertex_opposite_halfface / halfface_opposite_vertex")
    f = fs[0]
    cn = Canon(f)
    hits, other, invalid = [], [], 0
    for b, i, x in f.tops():
        if x.get("k") != "ret" or b not in f.reach():
            continue
        r = cn.s(x.get("x"))
        if r in ("InvalidHalfFaceHandle", "(HFH)HFH(-1)", "HFH(-1)", "HFH()"):
            invalid += 1
            continue
        m = re.fullmatch(r"each\((cell\(P0\)\.halffaces\(\))\)", r)
        if not m:
            other.append((b, x, r))
            continue
        ne = set()
        for s_, p_, c_ in cn.facts(b):
            q = split_eq(s_)
            if q and ((q[0] == "!=") == bool(p_)):
                for u, v in ((q[1], q[2]), (q[2], q[1])):
                    mm = re.fullmatch(r"get_halfface_vertices\(%s\)\[(\d)\w*\]" % re.escape(r), v)
                    if u == "P1" and mm:
                        ne.add(int(mm.group(1)))
        hits.append((b, x, ne))
    positional = [o for o in other if re.fullmatch(r"cell\(P0\)\.halffaces\(\)\[.*\]", o[2]) and not re.fullmatch(r"cell\(P0\)\.halffaces\(\)\[0\w*\]", o[2])]
    unordered = None
    if positional:
        # premise, read from the code: the tetrahedral add_cell(halffaces) hands the caller's order to the base class
        # unchanged, so the stored order of halffaces 1..3 follows no convention
        ac = c11.handle_fns(fb, TET, "add_cell")
        if len(ac) == 1:
            ca = Canon(ac[0])
            dl = [x for b, i, x in ac[0].nodes(("call",)) if x.get("pn") == c11.TK + "::add_cell" and b in ac[0].reach()]
            unordered = bool(dl) and all(ca.s(x["a"][0]) in ("P0", "move(P0)", "std::move(P0)") for x in dl if x.get("a"))
    if positional and unordered and len(positional) == len(other):
        for b, x, r in positional:
            ck.violate("C15.opposite", f.loc(x), "vertex_opposite_halfface selects the halfface by its vertices, not by its position in the cell: %s presupposes a halfface order, but TetrahedralMeshTopologyKernel::add_cell(halffaces) stores the caller's order unchanged" % r[:70], "C15.opposite:voh:positional")
    elif other or not hits:
        ck.cannot_judge("C15.opposite %s: vertex_opposite_halfface does not return an element of cell(c).halffaces() selected by its vertices (%s) - a positional formulation is not judged" % (f.where, [o[2][:60] for o in other][:2]))
    else:
        for b, x, ne in hits:
            ok = ne == {0, 1, 2}
            (ck.ok if ok else lambda r_, w_, t_: ck.violate(r_, w_, t_, "C15.opposite:voh"))("C15.opposite", f.loc(x), "vertex_opposite_halfface returns the halfface only when all three of its vertices differ from v (tested positions %s)" % sorted(ne))
        (ck.ok if invalid >= 1 else lambda r_, w_, t_: ck.violate(r_, w_, t_, "C15.opposite:voh:invalid"))("C15.opposite", f.where, "vertex_opposite_halfface returns the invalid handle when no halfface qualifies")
    g = gs[0]
    cg = Canon(g)
    rets = [cg.s(x.get("x")) for b, i, x in g.tops() if x.get("k") == "ret" and b in g.reach()]
    ok = rets == ["(is_boundary(P0) ? InvalidVertexHandle : get_cell_vertices(P0)[3])"]
    if not ok:
        # statement form: if (is_boundary(h)) return Invalid; return get_cell_vertices(h)[3];
        by = {}
        for b, i, x in g.tops():
            if x.get("k") == "ret" and b in g.reach():
                by[cg.s(x.get("x"))] = {(s_, p_) for s_, p_, c_ in cg.facts(b)}
        ok = set(by) == {"InvalidVertexHandle", "get_cell_vertices(P0)[3]"} and ("is_boundary(P0)", True) in by["InvalidVertexHandle"] and ("is_boundary(P0)", False) in by["get_cell_vertices(P0)[3]"]
    if ok:
        ck.ok("C15.opposite", g.where, "halfface_opposite_vertex = boundary ? invalid : get_cell_vertices(h)[3]")
    elif any("get_cell_vertices(P0)[" in r_ for r_ in rets):
        ck.violate("C15.opposite", g.where, "halfface_opposite_vertex = boundary ? invalid : get_cell_vertices(h)[3] (found %s)" % rets, "C15.opposite:hov")
    else:
        ck.cannot_judge("C15.opposite %s: halfface_opposite_vertex is not formulated through get_cell_vertices(h) (%s)" % (g.where, rets[:2]))


def get_label_rule(ck, fb):
    """TetTopology::get_label(halfface, first): the label is looked up, not computed"""
    from .canon import Canon
    ck.rule("C15.getlabel", "detail::try_get_label<HFL> returns the label HFL+k (k = 1,2,3) exactly when the tet's halfface HFL is the given one and the start vertex of label HFL+k - read from the label table hfl_vl<HFL+k, 0>() - equals the requested first vertex; the opposite side delegates to opposite<HFL>; no label is computed from the vertex by arithmetic")
    fs = [f for f in fb.fns.values() if f.name == "try_get_label" and f.has_cfg and "/Unstable/Topology/" in f.file]
    n = 0
    for f in fs:
        h = int((f.d.get("targs") or ["-1"])[0]) if (f.d.get("targs") or ["x"])[0].lstrip("-").isdigit() else None
        if h is None:
            continue
        cn = Canon(f)
        n += 1
        good = set()
        bad = []
        unknown = []
        for b, i, x in f.tops():
            if x.get("k") != "ret" or b not in f.reach():
                continue
            r = cn.s(x.get("x"))
            if r in ("optional()", "{}", "nullopt") or r.startswith("try_get_label("):
                continue
            m = re.fullmatch(r"optional\((?:\([A-Za-z:]+\))?\((\d+) \+ (\d+)\)\)", r)
            if not m:
                unknown.append(r[:60])
                continue
            lab = int(m.group(1)) + int(m.group(2))
            okf = False
            own = False
            for c, pol, e in f.facts(b):
                for y in walk(c):
                    if isinstance(y, dict) and y.get("k") == "call" and y.get("pn", "").endswith("TetTopology::hfl_vl") and y.get("ta") == [str(lab), "0"] and eq_match(cn.s(c), "==", r"P2", r".*", pol=pol, want="=="):
                        okf = True
                    if isinstance(y, dict) and y.get("k") == "call" and y.get("pn", "").endswith("TetTopology::hfh") and y.get("ta") == [str(h)] and eq_match(cn.s(c), "==", r"P1", r".*", pol=pol, want="=="):
                        own = True
            if okf and own and int(m.group(1)) == h:
                good.add(int(m.group(2)))
            else:
                bad.append("%s under other facts" % r)
        if unknown and not bad:
            # a label computed in another way (e.g. by arithmetic on the start vertex) may or may not agree with the table
            ck.cannot_judge("%s: try_get_label<%d> returns %s: not the table look-up form rule C15.getlabel knows - re-audit" % (f.where, h, unknown[:1]))
            continue
        ok = good == {1, 2, 3} and not bad
        (ck.ok if ok else lambda r_, w, t: ck.violate(r_, w, t, "C15.getlabel:%d" % h))("C15.getlabel", f.where, "try_get_label<%d>: labels %s looked up through hfl_vl<label, 0>() == first%s" % (h, sorted(good), "" if not bad else "; other returns: %s" % bad[:2]))
    ck.floor("try_get_label_instantiations", n, 8)


def sheet_rule(ck, fb, rule="C16.tables"):
    """CellSheetCellIter excludes exactly the given direction and its opposite (shared with C05: it is a circulator)"""
    from .canon import Canon
    # sheet iterator excludes exactly _orthDir and its opposite
    cs = [h for h in fb.fns.values() if h.cls == "OpenVolumeMesh::CellSheetCellIter" and h.kind == "ctor" and h.has_cfg and len(h.d["params"]) == 4]
    if not cs:
        raise AnalysisBroken("anchor vanished: CellSheetCellIter constructor")
    cs = cs[0]
    scn = Canon(cs)
    dirp = [k for k, p_ in enumerate(cs.d["params"]) if "char" in p_["t"]]
    if len(dirp) != 1:
        raise AnalysisBroken("CellSheetCellIter constructor: the direction parameter (unsigned char) is not unique")
    D = "P%d" % dirp[0]
    pushes = [(b, x) for b, i, x in cs.nodes(("call",)) if x.get("pn", "").split("::")[-1] == "push_back"]
    ok = False
    for b, x in pushes:
        at = {(scn.s(c), pol) for c, pol, e in cs.facts(b) if isinstance(pol, bool)}
        ne1 = any(eq_match(c, "!=", r".*orientation\(.*", re.escape(D), pol=pol, want="!=") for c, pol in at)
        ne2 = any(eq_match(c, "!=", r"(?!opposite_orientation).*orientation\(.*", r"(?:\(int\))?(?:.*::)?opposite_orientation\(%s\)" % re.escape(D), pol=pol, want="!=") for c, pol in at)
        ok = ne1 and ne2
    (ck.ok if ok else lambda r, w, t: ck.violate(r, w, t, "%s:sheet" % rule))(rule, cs.where, "CellSheetCellIter collects neighbours across the four halffaces whose orientation is neither _orthDir nor its opposite")


def orthogonal_table(ck, g, consts, cname, opp):
    """the table form of orthogonal_orientation (if it is written as one): extracted entries and their algebraic laws"""
    cyc = [2, 4, 3, 5]
    p1, p2 = g.d["params"][0]["n"], g.d["params"][1]["n"]
    table = {}
    for b, i, x in g.tops():
        if x.get("k") != "ret":
            continue
        rv = unwrap(strip_casts(x.get("x")))
        if not (isinstance(rv, dict) and rv.get("n") in consts) or rv["n"] == "INVALID":
            continue
        a = b_ = None
        for c, pol, e in g.facts(b):
            p = cmp_parts(c)
            if p and p[0] == "==" and pol is True:
                l, r = unwrap(strip_casts(p[1])), unwrap(strip_casts(p[2]))
                if isinstance(l, dict) and isinstance(r, dict) and r.get("n") in consts:
                    if l.get("n") == p1:
                        a = consts[r["n"]]
                    if l.get("n") == p2:
                        b_ = consts[r["n"]]
        if a is None or b_ is None:
            return False
        table[(a, b_)] = consts[rv["n"]]
    axis = lambda d: d // 2
    bad = []
    for a in range(6):
        for b in range(6):
            if axis(a) == axis(b):
                if (a, b) in table:
                    bad.append("defined for same-axis pair (%s,%s)" % (cname[a], cname[b]))
                continue
            if (a, b) not in table:
                bad.append("undefined for (%s,%s)" % (cname[a], cname[b]))
                continue
            r = table[(a, b)]
            if axis(r) in (axis(a), axis(b)):
                bad.append("(%s,%s)->%s is not the third axis" % (cname[a], cname[b], cname[r]))
            if table.get((b, a)) != opp(r):
                bad.append("not antisymmetric at (%s,%s)" % (cname[a], cname[b]))
            if table.get((opp(a), b)) != opp(r) or table.get((a, opp(b))) != opp(r):
                bad.append("sign does not flip with an argument at (%s,%s)" % (cname[a], cname[b]))
    for k in range(4):
        a, b = cyc[k], cyc[(k + 1) % 4]
        if table.get((a, b)) != consts["XF"]:
            bad.append("handedness: (%s,%s) -> %s, expected XF" % (cname[a], cname[b], cname.get(table.get((a, b)))))
    if not table:
        return False
    (ck.ok if (not bad and len(table) == 24) else lambda r, w, t: ck.violate(r, w, t, "C16.tables:orthogonal"))("C16.tables", g.where, "orthogonal_orientation: %d entries; %s" % (len(table), "all laws hold" if not bad else "; ".join(bad[:4])))
    return True


def orientation_witness(ck, fb, consts, g):
    """compile-time witness generated from the CURRENT source text of opposite_orientation / orthogonal_orientation:
    the two functions are re-declared constexpr in a scratch unit (together with the orientation constants read from the
    fact base) and evaluated by the compiler for every argument; the expected values are the cross products of the axis
    directions (x cross y = z) - independent of how the functions are written (table, formula, switch)"""
    import os
    import re
    from .extract import BUILD
    from .witness import function_text
    ck.rule("C16.orient", "static_assert witness over the source of opposite_orientation / orthogonal_orientation (re-declared constexpr): opposite pairs XF<->XB, YF<->YB, ZF<->ZB; orthogonal_orientation(a, b) is the direction of a cross b for the 24 pairs on different axes and INVALID for same-axis pairs and INVALID arguments")
    need = ["XF", "XB", "YF", "YB", "ZF", "ZB", "INVALID"]
    if any(n not in consts for n in need):
        raise AnalysisBroken("C16.orient: orientation constants missing: %s" % sorted(set(need) - set(consts)))
    oo = [h for h in fb.by_cls.get(HEX, []) if h.name == "opposite_orientation" and h.has_cfg]
    if not oo:
        raise AnalysisBroken("anchor vanished: opposite_orientation")
    parts = []
    for h in (oo[0], g):
        t = function_text(h.file, h.line, h.name)
        head, body = t[:t.index("{")], t[t.index("{"):]
        head = re.sub(r"\b(static|inline|constexpr)\b", "", head)
        parts.append("static constexpr " + " ".join(head.split()) + " " + body)
    vec = {"XF": (1, 0, 0), "XB": (-1, 0, 0), "YF": (0, 1, 0), "YB": (0, -1, 0), "ZF": (0, 0, 1), "ZB": (0, 0, -1)}
    inv = {v: k for k, v in vec.items()}
    cross = lambda a, b: (a[1] * b[2] - a[2] * b[1], a[2] * b[0] - a[0] * b[2], a[0] * b[1] - a[1] * b[0])
    asserts = []
    for a in need[:6]:
        asserts.append('static_assert(w::opposite_orientation(w::%s) == w::%s, "opposite_orientation(%s) is %s");' % (a, inv[tuple(-c for c in vec[a])], a, inv[tuple(-c for c in vec[a])]))
    for a in need:
        for b in need:
            if a == "INVALID" or b == "INVALID":
                exp = "INVALID"
            else:
                c = cross(vec[a], vec[b])
                exp = inv.get(c, "INVALID")
            asserts.append('static_assert(w::orthogonal_orientation(w::%s, w::%s) == w::%s, "orthogonal_orientation(%s,%s) is %s");' % (a, b, exp, a, b, exp))
    src = "// generated by ovmverif.c15_c16.orientation_witness from %s\nnamespace w {\n%s\n%s\n}\n%s\n" % (
        g.file, "\n".join("static const unsigned char %s = %d;" % (n, consts[n]) for n in need), "\n".join(parts), "\n".join(asserts))
    d = os.path.join(BUILD, "witness_gen")
    os.makedirs(d, exist_ok=True)
    path = os.path.join(d, "c16_orientation.cc")
    open(path, "w").write(src)
    compile_witness(ck, "C16.orient", path)


def reorder_total_rule(ck, fb, rule="C16.reorder"):
    """the re-ordered halfface list handed to TopologyKernel::add_cell has every slot assigned"""
    ck.rule(rule, "HexahedralMeshTopologyKernel::add_cell(halffaces, check): the re-ordered list starts as six invalid handles; every slot assignment outside a loop dominates the delegating call, and a loop that fills slots assigns one on every iteration that continues (an iteration that skips its assignment leaves an invalid handle in the list that TopologyKernel::add_cell then stores - found by fuzzing, F34)")
    fs = c11.handle_fns(fb, HEX, "add_cell")
    if len(fs) != 1:
        raise AnalysisBroken("anchor vanished: HexahedralMeshTopologyKernel::add_cell(halffaces)")
    f = fs[0]
    dl = [(b, i, x) for b, i, x in f.nodes(("call",)) if x.get("pn") == c11.TK + "::add_cell" and b in f.reach()]
    lists = {}
    for b, i, x in dl:
        for y in walk(f.resolve(x["a"][0])) if x.get("a") else []:
            if isinstance(y, dict) and y.get("k") == "var" and y.get("s") != "param":
                lists.setdefault(y["id"], []).append((b, i, x))
    if not lists:
        ck.cannot_judge("%s %s: no re-ordered local list is handed to TopologyKernel::add_cell - the re-ordering is written in a form the rule does not know" % (rule, f.where))
        return
    loops = f.loops()
    for vid, calls in lists.items():
        asg = []
        for b, i, x in f.tops():
            a = as_assign(x)
            if not a or b not in f.reach():
                continue
            l = unwrap(f.resolve(a[0]))
            base = l
            while isinstance(base, dict) and (base.get("k") == "idx" or (base.get("k") == "call" and base.get("op") == "[]")):
                base = unwrap(base.get("b") if base.get("k") == "idx" else base.get("r"))
            if isinstance(base, dict) and base.get("k") == "var" and base.get("id") == vid and base is not l:
                asg.append((b, i, x))
        if not asg:
            ck.cannot_judge("%s %s: the list handed to TopologyKernel::add_cell is not filled by element assignments" % (rule, f.where))
            continue
        for b, i, x in asg:
            inl = [(h, body, backs) for h, body, backs in loops if b in body]
            if not inl:
                ok = all(f.dominates((b, i), (cb, ci)) for cb, ci, cx in calls)
                (ck.ok if ok else lambda r_, w_, t_: ck.violate(r_, w_, t_, "%s:slot:%s" % (rule, estr(a_l(x))[:30])))(rule, f.loc(x), "add_cell: the slot assignment %s precedes the delegating call on every path" % estr(a_l(x))[:50])
                continue
            h, body, backs = min(inl, key=lambda z: len(z[1]))
            blocked = {bb for bb, ii, xx in asg if bb in body}
            # can a back edge be reached from the header without passing an assignment block?
            seen_, work = set(), [s_ for s_ in f.succ(h) if s_ in body and s_ != h]
            skip = False
            while work:
                u = work.pop()
                if u in seen_ or u in blocked:
                    continue
                seen_.add(u)
                if u in backs or h in f.succ(u):
                    skip = True
                    break
                work += [s_ for s_ in f.succ(u) if s_ in body]
            (ck.ok if not skip else lambda r_, w_, t_: ck.violate(r_, w_, t_, "%s:skip" % rule))(rule, f.loc(x), "add_cell: the loop that fills the re-ordered list assigns a slot on every iteration that continues%s" % ("" if not skip else " - an iteration can skip the assignment (continue) and leave an invalid handle in the list"))


def hex_structure_rule(ck, fb, rule="C16.structure"):
    """a topology-checked hexahedral add_cell hands only a hexahedron to the base class (F47)"""
    from .canon import Canon
    ck.rule(rule, "HexahedralMeshTopologyKernel::add_cell(halffaces, check): with the check requested, every call of TopologyKernel::add_cell lies under the fact that a predicate over the very list that is handed on holds, and that predicate rejects when a vertex of halfface 2k also lies on halfface 2k+1 (k = 0..2) and unless the six halffaces span eight vertices - check_halfface_ordering only looks at the neighbours of the first two halffaces, and six quads on eight vertices can be closed without being a cube")
    fs = c11.handle_fns(fb, HEX, "add_cell")
    if len(fs) != 1:
        raise AnalysisBroken("anchor vanished: HexahedralMeshTopologyKernel::add_cell(halffaces)")
    f = fs[0]
    cn = Canon(f)
    P = "P%d" % [k for k, p_ in enumerate(f.d["params"]) if p_["t"] == "bool"][0]
    dl = [(b, i, x) for b, i, x in f.nodes(("call",)) if x.get("pn") == c11.TK + "::add_cell" and b in f.reach()]
    preds = set()
    for b, i, x in dl:
        fs_ = {(s_, p_) for s_, p_, c_ in cn.facts(b)}
        if (P, False) in fs_:
            continue
        L = re.sub(r"^(std::)?move\((.*)\)$", r"\2", cn.s(x["a"][0]))
        hit = [s_ for s_, p_ in fs_ if p_ is True and re.fullmatch(r"(\w+::)*(\w+)\(%s\)" % re.escape(L), s_) and not s_.startswith("check_halfface_ordering")]
        if not hit and any(re.match(r"std::(set|unordered_set|vector|array)<OpenVolumeMesh::VH", v_.get("t", "")) for vid_, (v_, b_, i_) in cn.decl.items()):
            ck.cannot_judge("%s %s: add_cell compares vertices itself instead of calling a predicate on the list - the inlined structure test is not judged" % (rule, f.loc(x)))
            continue
        (ck.ok if hit else lambda r_, w_, t_: ck.violate(r_, w_, t_, "%s:unchecked" % rule))(rule, f.loc(x), "add_cell: with the check requested the list %s reaches the base class only after a structure predicate on it held (%s)" % (L, hit[:1] or "none besides the ordering test"))
        for h in hit:
            preds.add(re.fullmatch(r"(\w+::)*(\w+)\(.*\)", h).group(2))
    for nm in sorted(preds):
        gs = [g for g in fb.by_cls.get(HEX, []) if g.name == nm and g.has_cfg]
        if not gs:
            ck.cannot_judge("%s: the structure predicate %s is not a member of the hexahedral kernel with a body" % (rule, nm))
            continue
        g = gs[0]
        cg = Canon(g)
        rej = [(b, x) for b, i, x in g.tops() if x.get("k") == "ret" and cg.s(x.get("x")) in ("false", "0") and b in g.reach()]
        pair = False
        for b, x in rej:
            for s_, p_, c_ in cg.facts(b):
                if p_ is True and re.search(r"\.count\(.*P0\[\(\(2 \* (it\d+)\(0\)\) \+ 1\)\]", s_):
                    it = re.search(r"P0\[\(\(2 \* (it\d+)\(0\)\) \+ 1\)\]", s_).group(1)
                    setname = s_.split(".count(")[0].lstrip("(")
                    # the set holds the vertices of halfface 2k
                    vid = [v_ for v_, n_ in cg._name.items() if n_ == setname]
                    if vid and any("P0[(2 * %s(0))]" % it in cg.s(m["a"][0]) for kind, bb, ii, m in cg.mods.get(vid[0], []) if m.get("a")):
                        pair = True
        (ck.ok if pair else lambda r_, w_, t_: ck.violate(r_, w_, t_, "%s:pairs" % rule))(rule, g.where, "%s rejects when a vertex of halfface 2k is also a vertex of halfface 2k+1" % nm)
        eight = any(x.get("k") == "ret" and re.fullmatch(r"\(8\w* == v\d+\.size\(\)\)|\(v\d+\.size\(\) == 8\w*\)", cg.s(x.get("x"))) for b, i, x in g.tops()) or any(ceq_has(cg, b, "8") for b, x in rej)
        (ck.ok if eight else lambda r_, w_, t_: ck.violate(r_, w_, t_, "%s:eight" % rule))(rule, g.where, "%s accepts only eight distinct vertices" % nm)
    if not preds and dl:
        pass


def ceq_has(cg, b, lit):
    for s_, p_, c_ in cg.facts(b):
        q = split_eq(s_)
        if q and lit in (q[1], q[2]) and ".size()" in s_ and ((q[0] == "!=") == bool(p_)):
            return True
    return False


def a_l(x):
    a = as_assign(x)
    return a[0] if a else x


def hfsheet_rule(ck, fb):
    """HalfFaceSheetHalfFaceIter: the matching halffaces of the sheet neighbours"""
    from .canon import Canon
    ck.rule("C16.hfsheet", "HalfFaceSheetHalfFaceIter's constructor is invalid for a boundary halfface; it fills a set with the halfedges of the OPPOSITE of the reference halfface, walks csc_iter(incident_cell(h), orientation(h, incident_cell(h))), and records a halfface H of such a neighbour exactly under the fact that a halfedge E of H is in that set, together with edge_handle(E)")
    cands = [f for f in fb.fns.values() if f.has_cfg and f.pq == "OpenVolumeMesh::HalfFaceSheetHalfFaceIter::(ctor)" and f.file.endswith(".cc")]
    if len(cands) != 1:
        raise AnalysisBroken("anchor vanished: HalfFaceSheetHalfFaceIter constructor (%d)" % len(cands))
    f = cands[0]
    cn = Canon(f)
    M = r"P\d+\."
    # (0) boundary reference -> invalid
    inval = [b for b, i, x in f.tops() if x.get("k") == "call" and cn.s(x) == "valid(false)" and b in f.reach()]
    okb = any(any(re.fullmatch(M + r"is_boundary\(P0\)", s_) and p_ is True for s_, p_, c_ in cn.facts(b)) for b in inval)
    (ck.ok if okb else lambda r_, w_, t_: ck.violate(r_, w_, t_, "C16.hfsheet:boundary"))("C16.hfsheet", f.where, "a boundary reference halfface gives an invalid circulator")
    # (1) reference set
    sets = {cn._name[vid]: vid for vid, (v, b, i) in cn.decl.items() if v.get("t", "").startswith("std::set<OpenVolumeMesh::HEH") and vid in cn._name}
    REF = (r"%sopposite_halfface\(%shalfface\(P0\)\)\.halfedges\(\)" % (M, M), r"%shalfface\((%s)?opposite_halfface_handle\(P0\)\)\.halfedges\(\)" % (M, M))
    refset = None
    wrong = None
    for nm, vid in sets.items():
        for kind, b, i, m in cn.mods.get(vid, []):
            if m.get("pn", "").split("::")[-1] == "insert" and len(m.get("a", [])) == 2:
                a0, a1 = cn.s(m["a"][0]), cn.s(m["a"][1])
                for R in REF:
                    if re.fullmatch(R + r"\.begin\(\)", a0) and re.fullmatch(R + r"\.end\(\)", a1):
                        refset = nm
                if refset is None:
                    wrong = (a0, a1)
    if refset is None:
        if wrong and "halfedges()" in wrong[0]:
            ck.violate("C16.hfsheet", f.where, "the reference set holds the halfedges of the opposite of the reference halfface (found %s)" % wrong[0][:80], "C16.hfsheet:refset")
        else:
            ck.cannot_judge("C16.hfsheet %s: no set of the reference halfface's opposite halfedges is built - not judged" % f.where)
        return
    ck.ok("C16.hfsheet", f.where, "the reference set %s holds the halfedges of the opposite of the reference halfface" % refset)
    # (2)+(3) pushes
    CSC = r"it\d+\(%scsc_iter\(%sincident_cell\(P0\), %sorientation\(P0, %sincident_cell\(P0\)\)(, 1)?\)\)" % (M, M, M, M)
    pushes = [(b, i, x) for b, i, x in f.tops() if x.get("k") == "call" and x.get("pn", "").split("::")[-1] in ("push_back", "emplace_back") and b in f.reach() and "HFH" in (x.get("cc") or x.get("rt") or "")]
    if len(pushes) != 1:
        ck.cannot_judge("C16.hfsheet %s: %d halfface push sites - not judged" % (f.where, len(pushes)))
        return
    b, i, x = pushes[0]
    H = cn.s(x["a"][0])
    okH = re.fullmatch(r"\*it\d+\((__normal_iterator\()?%scell\(\*%s\)\.halffaces\(\)\.begin\(\)\)?\)" % (M, CSC), H) or re.fullmatch(r"each\(%scell\(\*%s\)\.halffaces\(\)\)" % (M, CSC), H)
    (ck.ok if okH else lambda r_, w_, t_: ck.violate(r_, w_, t_, "C16.hfsheet:cells"))("C16.hfsheet", f.loc(x), "the recorded halfface ranges over the halffaces of the cells of csc_iter(incident_cell(h), orientation(h, incident_cell(h))) (found %s)" % H[:110])
    member = None
    for s_, p_, c_ in cn.facts(b):
        m1 = re.fullmatch(r"\(%s\.count\((.*)\) > 0\w*\)" % refset, s_)
        m2 = re.fullmatch(r"%s\.count\((.*)\)" % refset, s_)
        q = split_eq(s_)
        if (m1 or m2) and p_ is True:
            member = (m1 or m2).group(1)
        elif q and p_ is (q[0] == "!=") and {True} == {x_.startswith(refset + ".find(") or x_ == refset + ".end()" for x_ in (q[1], q[2])}:
            member = [x_ for x_ in (q[1], q[2]) if x_.startswith(refset + ".find(")][0][len(refset) + 6:-1]
    okE = bool(member) and ("halfface(%s).halfedges()" % H) in member.replace("P1.", "").replace("P2.", "") or bool(member) and (H in member and "halfedges()" in member)
    (ck.ok if okE else lambda r_, w_, t_: ck.violate(r_, w_, t_, "C16.hfsheet:member"))("C16.hfsheet", f.loc(x), "the halfface is recorded exactly when one of ITS halfedges is in the reference set (membership test on %s)" % (member or "none")[:90])
    ce = [cn.s(y["a"][0]) for bb, ii, y in f.tops() if bb == b and y.get("k") == "call" and y.get("pn", "").split("::")[-1] in ("push_back", "emplace_back") and "EH" in (y.get("cc") or y.get("rt") or "") and "HFH" not in (y.get("cc") or y.get("rt") or "")]
    okC = bool(member) and any(c_ in ("edge_handle(%s)" % member, "%s.edge_handle()" % member) or re.fullmatch(M + r"edge_handle\(%s\)" % re.escape(member), c_) for c_ in ce)
    (ck.ok if okC else lambda r_, w_, t_: ck.violate(r_, w_, t_, "C16.hfsheet:edge"))("C16.hfsheet", f.loc(x), "the common edge recorded with it is the edge of that halfedge (found %s)" % [c_[:60] for c_ in ce][:1])


def run_c16(ck, fb, fbd):
    hfsheet_rule(ck, fb)
    from .hexwalk import hexwalk_rule
    hexwalk_rule(ck, fb)
    reorder_total_rule(ck, fb)
    hex_structure_rule(ck, fb)
    ck.rule("C16.layout", "add_cell(8 vertices): the six vertex quadruples form a closed oriented cube surface (24 directed edges, each once, each reverse once; 8 vertices of degree 3), quadruples 2k and 2k+1 are disjoint, walking the first quadruple's edges meets quadruples 2,4,3,5 in cyclic order, the looked-up quadruples equal the created ones, lookups use find_halfface_extensive, and the halffaces are stored in that order")
    f = [g for g in fb.by_cls.get(HEX, []) if g.name == "add_cell" and g.has_cfg and len(g.d["params"]) == 2 and "VH" in g.d["params"][0]["t"]]
    if not f:
        raise AnalysisBroken("anchor vanished: HexahedralMeshTopologyKernel::add_cell(vertices)")
    f = f[0]
    tl = vertex_tuples(f, f.d["params"][0]["n"])
    finds = [(nm, t) for nm, t, ln in tl if nm.startswith("find")]
    adds = [t for nm, t, ln in tl if nm == "add_face"]
    Q = [t for nm, t in finds]
    ok = len(Q) == 6 and all(len(q) == 4 for q in Q)
    if not ok:
        raise AnalysisBroken("C16: add_cell(8 vertices): expected six quadruples, found %s" % Q)
    (ck.ok if closed_oriented(Q) else lambda r, w, t: ck.violate(r, w, t, "C16.layout:closed"))("C16.layout", f.where, "the six quadruples %s form a closed oriented surface" % Q)
    deg = {}
    for q in Q:
        for v in q:
            deg[v] = deg.get(v, 0) + 1
    ok = sorted(deg) == list(range(8)) and all(d == 3 for d in deg.values())
    (ck.ok if ok else lambda r, w, t: ck.violate(r, w, t, "C16.layout:degree"))("C16.layout", f.where, "all eight vertices occur in exactly three quadruples")
    ok = all(not (set(Q[2 * k]) & set(Q[2 * k + 1])) for k in range(3))
    (ck.ok if ok else lambda r, w, t: ck.violate(r, w, t, "C16.layout:opposite"))("C16.layout", f.where, "quadruples 2k and 2k+1 share no vertex")

    def walk_order(q0, others):
        seq = []
        for (a, b) in directed_edges(q0):
            for k, q in others:
                if (b, a) in directed_edges(q):
                    seq.append(k)
        return seq
    seq = walk_order(Q[0], [(k, Q[k]) for k in range(1, 6)])
    cyc = [2, 4, 3, 5]
    rots = [cyc[i:] + cyc[:i] for i in range(4)]
    (ck.ok if seq in rots else lambda r, w, t: ck.violate(r, w, t, "C16.layout:handedness"))("C16.layout", f.where, "walking the edges of quadruple 0 meets quadruples %s (must be a rotation of 2,4,3,5)" % seq)
    seqb = walk_order(Q[1], [(k, Q[k]) for k in (0, 2, 3, 4, 5)])
    cycb = [3, 4, 2, 5]
    rotsb = [cycb[i:] + cycb[:i] for i in range(4)]
    (ck.ok if seqb in rotsb else lambda r, w, t: ck.violate(r, w, t, "C16.layout:handedness_bottom"))("C16.layout", f.where, "walking the edges of quadruple 1 meets quadruples %s (must be a rotation of 3,4,2,5)" % seqb)
    (ck.ok if adds == Q else lambda r, w, t: ck.violate(r, w, t, "C16.layout:find_vs_add"))("C16.layout", f.where, "faces that are looked up equal the faces that are created (%s)" % ("same six quadruples in the same order" if adds == Q else adds))
    ok = all(nm == "find_halfface_extensive" for nm, t in finds)
    (ck.ok if ok else lambda r, w, t: ck.violate(r, w, t, "C16.layout:lookup"))("C16.layout", f.where, "existing quads are looked up with find_halfface_extensive (all four vertices decide), found %s" % sorted({nm for nm, t in finds}))
    # storage order hf0..hf5: the k-th lookup result is pushed k-th
    assigned = []
    for b, i, x in src_order(f, [(b, i, x) for b, i, x in f.tops() if as_assign(x)]):
        l, r, op = as_assign(x)
        if "find_halfface" in estr(r):
            assigned.append(estr(l))
    pushed = [estr(f.resolve(x["a"][0])) for b, i, x in src_order(f, [(b, i, x) for b, i, x in f.nodes(("call",)) if x.get("pn", "").split("::")[-1] == "push_back" and "HFH" in x.get("rt", "")])]
    (ck.ok if (assigned == pushed and len(pushed) == 6) else lambda r, w, t: ck.violate(r, w, t, "C16.layout:storage"))("C16.layout", f.where, "the halffaces are stored in lookup order %s" % pushed)
    # constants and tables
    ck.rule("C16.tables", "XF..ZB are 0..5; the six front/back accessors index with their own constant; opposite_orientation pairs 2k<->2k+1; opposite_halfface_handle_in_cell maps orientation d to the accessor of opposite(d); orthogonal_orientation is defined exactly for different axes, returns the third axis, is antisymmetric, flips with either argument and equals XF on consecutive pairs of the cyclic order 2,4,3,5; the reorder/check tables are {2,4,3,5} and its mirror {3,4,2,5}; the reorder walk uses the orientation-aware halfface() accessor")
    consts = {}
    for nm in ("XF", "XB", "YF", "YB", "ZF", "ZB", "INVALID"):
        v = fb.vars.get(HEX + "::" + nm)
        if not v or "value" not in v:
            raise AnalysisBroken("C16: constant %s not found / not evaluated" % nm)
        consts[nm] = v["value"]
    ok = [consts[n] for n in ("XF", "XB", "YF", "YB", "ZF", "ZB")] == [0, 1, 2, 3, 4, 5] and consts["INVALID"] == 6
    (ck.ok if ok else lambda r, w, t: ck.violate(r, w, t, "C16.tables:constants"))("C16.tables", HEX, "orientation constants %s" % consts)
    cname = {v: k for k, v in consts.items()}
    acc = {"xfront_halfface": "XF", "xback_halfface": "XB", "yfront_halfface": "YF", "yback_halfface": "YB", "zfront_halfface": "ZF", "zback_halfface": "ZB"}
    for an, cn in acc.items():
        g = [h for h in fb.by_cls.get(HEX, []) if h.name == an and h.has_cfg]
        if not g:
            raise AnalysisBroken("anchor vanished: %s" % an)
        ret = [x for b, i, x in g[0].tops() if x.get("k") == "ret"][0]
        idxs = [unwrap(y["i"]) for y in walk(ret) if isinstance(y, dict) and y.get("k") == "idx"]
        ok = len(idxs) == 1 and isinstance(idxs[0], dict) and idxs[0].get("n") == cn
        (ck.ok if ok else lambda r, w, t: ck.violate(r, w, t, "C16.tables:%s" % an))("C16.tables", g[0].where, "%s returns halffaces()[%s]" % (an, cn))
    # opposite_orientation
    g = [h for h in fb.by_cls.get(HEX, []) if h.name == "opposite_orientation" and h.has_cfg]
    if not g:
        raise AnalysisBroken("anchor vanished: opposite_orientation")
    from .c08 import Evaluator, Lin, const, Unsupported
    evl = Evaluator(fb)
    try:
        vals = [evl.call(g[0], None, [const(d)]) for d in range(6)]
        ok = [v.c for v in vals] == [1, 0, 3, 2, 5, 4] and all(v.a == 0 for v in vals)
    except Unsupported as ex:
        raise AnalysisBroken("C16: opposite_orientation: %s" % ex)
    (ck.ok if ok else lambda r, w, t: ck.violate(r, w, t, "C16.tables:opposite_orientation"))("C16.tables", g[0].where, "opposite_orientation maps 0..5 to %s" % [v.c for v in vals])
    opp = lambda d: d ^ 1
    # opposite_halfface_handle_in_cell
    g = [h for h in fb.by_cls.get(HEX, []) if h.name == "opposite_halfface_handle_in_cell" and h.has_cfg]
    if not g:
        raise AnalysisBroken("anchor vanished: opposite_halfface_handle_in_cell")
    pairs = {}
    for b, i, x in g[0].tops():
        if x.get("k") == "ret" and "Invalid" not in estr(x):
            callee = [y.get("pn", "").split("::")[-1] for y in walk(x) if isinstance(y, dict) and y.get("k") == "call" and y.get("pn", "").split("::")[-1] in acc]
            for c, pol, e in g[0].facts(b):
                p = cmp_parts(c)
                if p and p[0] == "==" and pol is True and "orientation(" in estr(p[1]):
                    r = unwrap(strip_casts(p[2]))
                    if isinstance(r, dict) and r.get("n") in consts and callee:
                        pairs[r["n"]] = acc[callee[0]]
    ok = len(pairs) == 6 and all(consts[v] == opp(consts[k]) for k, v in pairs.items())
    (ck.ok if ok else lambda r, w, t: ck.violate(r, w, t, "C16.tables:opposite_in_cell"))("C16.tables", g[0].where, "opposite_halfface_handle_in_cell maps %s" % pairs)
    # orthogonal_orientation
    g = [h for h in fb.by_cls.get(HEX, []) if h.name == "orthogonal_orientation" and h.has_cfg]
    if not g:
        raise AnalysisBroken("anchor vanished: orthogonal_orientation")
    g = g[0]
    orientation_witness(ck, fb, consts, g)
    if not orthogonal_table(ck, g, consts, cname, opp):
        ck.note("orthogonal_orientation is not written as a table of (_o1 == A && _o2 == B) returns: the table laws are not evaluated, the compile-time witness C16.orient decides the function for all 49 argument pairs")
    # order tables
    arrays = {}
    # the order tables are found by role: local arrays of four literal integers in add_cell / check_halfface_ordering
    per_fn = {}
    for h in [x for x in fb.by_cls.get(HEX, []) if x.has_cfg and x.name in ("add_cell", "check_halfface_ordering")]:
        for b, i, d in h.nodes(("decl",)):
            for v in d["vars"]:
                if v.get("init") is None or "[4]" not in v["t"]:
                    continue
                vals = [unwrap(strip_casts(y)).get("v") for y in unwrap(h.resolve(v["init"])).get("a", [])]
                if len(vals) == 4 and all(isinstance(z, int) for z in vals):
                    per_fn.setdefault(h.name, []).append(vals)
                    arrays.setdefault(v["n"], []).append((h.name, vals))
    ok = len(per_fn) == 2 and all(sorted(v) == [[2, 4, 3, 5], [3, 4, 2, 5]] for v in per_fn.values())
    # check_halfface_ordering start offsets: ahfh == _hfs[k] -> offset j with orderTop[j] == k
    ch = [h for h in fb.by_cls.get(HEX, []) if h.name == "check_halfface_ordering" and h.has_cfg]
    if not ch:
        raise AnalysisBroken("anchor vanished: check_halfface_ordering")
    ch = ch[0]
    from .canon import Canon
    ccn = Canon(ch)
    offs = {}
    for b, i, x in ch.tops():
        a = as_assign(x)
        if a and re.fullmatch(r"v\d+", ccn.s(a[0])) and unwrap(strip_casts(a[1])).get("k") == "lit":
            for c, pol, e in ch.facts(b):
                m = eq_match(ccn.s(c), "==", r"P0\[(\d+)\]", r".*", pol=pol, want="==")
                if m:
                    offs.setdefault(ccn.s(a[0]), {})[int(m[0].group(1))] = unwrap(strip_casts(a[1]))["v"]
    ok = sorted(offs.values(), key=lambda d_: sorted(d_.items())) == sorted([{2: 0, 4: 1, 3: 2, 5: 3}, {3: 0, 4: 1, 2: 2, 5: 3}], key=lambda d_: sorted(d_.items()))
    (ck.ok if ok else lambda r, w, t: ck.violate(r, w, t, "C16.tables:offsets"))("C16.tables", ch.where, "check_halfface_ordering start offsets agree with the order tables (%s)" % offs)
    # orientation-aware accessor in the walks
    for h in [x for x in fb.by_cls.get(HEX, []) if x.has_cfg and (x.name == "check_halfface_ordering" or (x.name == "add_cell" and "HFH" in x.d["params"][0]["t"]))]:
        for b, i, d in h.nodes(("decl",)):
            for v in d["vars"]:
                if v["t"].replace("const ", "").replace("&", "").strip().startswith("std::vector<OpenVolumeMesh::HEH>") and v.get("init") is not None:
                    s = estr(h.resolve(v["init"]))
                    reverse_walk = any(x.get("pn", "").split("::")[-1] in ("rbegin", "rend", "crbegin") for bb, ii, x in h.nodes(("call",)))
                    ok = ("halfface(" in s and "face(" not in s.replace("halfface(", "")) or ("face(" in s and reverse_walk)
                    (ck.ok if ok else lambda r, w, t: ck.violate(r, w, t, "C16.tables:accessor:%s:%s" % (h.name, v["n"])))("C16.tables", h.loc(d), "%s: the walked halfedge list %s comes from the orientation-aware halfface() accessor (%s)" % (h.name, v["n"], s[:60]))
    sheet_rule(ck, fb)
    # the hexahedral sheet circulators collect their elements in the constructor (shared with C05)
    from .c05 import collectors
    collectors(ck, fb)
    ck.rule("C11.valence", "hexahedral add_face/add_cell reach the base implementation only with 4/6 entries")
    valence_guards(ck, fb, HEX)


cyc = [2, 4, 3, 5]
