"""driver: ./check <id> [--tier quick|thorough] [--replay path]"""
import argparse
import importlib
import json
import os
import sys
import traceback

from . import extract
from .core import Check
from .extract import AnalysisBroken
from .facts import FactBase

MODULES = {
    "C01": ("lockstep", "run_c01"),
    "C02": ("lockstep", "run_c02"),
    "C03": ("lockstep", "run_c03"),
    "C04": ("c04_c09", "run_c04"),
    "C05": ("c05", "run"),
    "C06": ("c06", "run"),
    "C07": ("c07", "run"),
    "C08": ("c08", "run"),
    "C09": ("c04_c09", "run_c09"),
    "C10": ("c10", "run"),
    "C11": ("c11", "run"),
    "C12": ("c12", "run"),
    "C13": ("c13_c14", "run_c13"),
    "C14": ("c13_c14", "run_c14"),
    "C15": ("c15_c16", "run_c15"),
    "C16": ("c15_c16", "run_c16"),
    "C17": ("lockstep", "run_c17"),
    "C18": ("c18", "run"),
    "C19": ("c19", "run"),
    "C20": ("c20", "run"),
}


def main():
    ap = argparse.ArgumentParser()
    ap.add_argument("pid")
    ap.add_argument("--tier", default=os.environ.get("VERIF_TIER", "quick"))
    ap.add_argument("--replay")
    a = ap.parse_args()
    if a.tier not in ("quick", "thorough"):
        a.tier = "quick"
    seed = int(os.environ.get("VERIF_SEED", "0") or 0)
    if a.pid not in MODULES:
        print("unknown / unclaimed property " + a.pid)
        return 2
    ck = Check(a.pid, a.tier, seed)
    if a.replay:
        ck.replay_key = json.load(open(a.replay))["key"]
    try:
        raw, rawd, info = extract.ensure(a.tier)
        fb, fbd = FactBase(raw), FactBase(rawd)
        ck.analysed["extraction"] = info
        mod = importlib.import_module("ovmverif." + MODULES[a.pid][0])
        getattr(mod, MODULES[a.pid][1])(ck, fb, fbd)
        rc = ck.finish()
        if a.replay and rc:
            for o in ck.oblig:
                if o.get("key") == ck.replay_key:
                    print(json.dumps(o, indent=1))
        return rc
    except AnalysisBroken as e:
        print("ANALYSIS-BROKEN property=%s: %s" % (a.pid, e))
        return 2
    except Exception:
        traceback.print_exc()
        print("ANALYSIS-BROKEN property=%s: internal error" % a.pid)
        return 2


if __name__ == "__main__":
    sys.exit(main())
