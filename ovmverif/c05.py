"""C05 - iterators and circulators: protocol conformance of the hand-written classes.

Decides shape clauses on the CFG of every constructor / operator++ / operator-- :
 entity iterators  : step, skip-deleted loop, invalidation guard (complementary to the loop bound), handle refresh
 circulators       : ++ three-way outcome (advance | wrap+lap | wrap+lap+invalidate iff lap >= max_laps), -- mirror image,
                     handle refresh on every path, delegating circulators synchronise lap/valid/handle,
                     _max_laps forwarded to the base class and to inner circulators
 set relations     : duplicate removal (sort+unique / std::set) before first use
 range accessors   : (begin, make_end_circulator(begin)) resp. (K_begin(), K_end()) with the iterator's own bound
An unrecognised shape is 'analysis broken' (exit 2), never a violation."""
import re
from collections import defaultdict

from .extract import AnalysisBroken
from .facts import as_assign, estr, unwrap, walk
from .readers import cmp_parts, strip_casts

TK = "OpenVolumeMesh::TopologyKernel"
ENTITY_ITERS = ("VertexIter", "EdgeIter", "HalfEdgeIter", "FaceIter", "HalfFaceIter", "CellIter")
SET_RELATIONS = {  # circulators whose incident relation is a set (each neighbour once) although it is collected with repeats
    "VertexFaceIter": "faces around a vertex are reached once per incident halfedge",
    "VertexCellIter": "cells around a vertex are reached once per incident halfface",
    "VertexHalfFaceIterImpl": "halffaces around a vertex are reached once per incident halfedge",
    "HalfEdgeCellIter": "a cell can contain several halffaces at the halfedge",
    "CellVertexIter": "vertices of a cell are reached once per halfface",
    "CellEdgeIterImpl": "edges of a cell are reached once per halfface",
    "CellCellIter": "a neighbour cell can share several faces",
    "CellSheetCellIter": "sheet neighbours",
    # added by the rule audit: relations that are sets by the statement although the code enumerates them one-to-one
    "VertexVertexIter": "a neighbour vertex is reached once per outgoing halfedge: parallel (duplicate) edges repeat it",
    "CellFaceIterImpl": "a face is reached once per halfface of the cell: a cell that contains both sides of a face repeats it",
}


def cls_short(c):
    return c.replace("OpenVolumeMesh::", "").replace("detail::", "")


def conds_of(f):
    out = []
    for b in f.reach():
        t = f.term(b)
        if t and t.get("cond") and len(f.succ(b)) == 2:
            out.append((b, t, f.resolve(t["cond"])))
    return out


def mem_name(e):
    e = strip_casts(e)
    if isinstance(e, dict) and e.get("k") == "mem":
        return e["f"]
    return None


def norm(s, subs):
    for a, b in subs:
        s = s.replace(a, b)
    return s


def run(ck, fb, fbd):
    entity_iterators(ck, fb)
    circulators(ck, fb)
    ranges(ck, fb)
    collectors(ck, fb)
    arithmetic(ck, fb)
    revalidate_rule(ck, fb)
    from .rule_u import sorted_rule
    sorted_rule(ck, fb, lambda g: "Iter" in g.pq, floor=8)
    from .c15_c16 import sheet_rule
    ck.rule("C05.sheet", "CellSheetCellIter collects the neighbours across exactly the four halffaces whose orientation is neither the given direction nor opposite_orientation(direction)")
    sheet_rule(ck, fb, "C05.sheet")


# audited exceptions of C05.collect: (class, nesting depth of the loop) -> reason
COLLECT_EXCEPTIONS = {
    ("OpenVolumeMesh::HalfFaceSheetHalfFaceIter", 3): "the innermost loop only looks for ONE halfedge the candidate halfface shares with the reference: one (halfface, common edge) pair is recorded per halfface by design",
}


def arithmetic(ck, fb):
    """GenericCirculator: c + n / c += n step forward n times, c - n / c -= n step BACKWARD n times"""
    ck.rule("C05.arith", "GenericCirculator: operator+(int), operator+=(int) and postfix ++ reach (through members of the class) operator++ and never operator--; operator-(int), operator-=(int) and postfix -- reach operator-- and never operator++: a subtraction routed through the forward loop with a negated count moves nothing")
    ms = [f for f in fb.fns.values() if f.has_cfg and f.cls and f.cls.startswith("OpenVolumeMesh::GenericCirculator<")]
    by_cls = {}
    for f in ms:
        by_cls.setdefault(f.cls, []).append(f)
    n = 0
    for cls, fs in sorted(by_cls.items())[:3]:
        ids = {f.id: f for f in fs}

        def reach_ops(f, seen=None):
            seen = seen if seen is not None else set()
            out = set()
            for b, i, x in f.nodes(("call", "un")):
                if b not in f.reach():
                    continue
                if x.get("k") == "call":
                    op = x.get("op")
                    if op in ("++", "--") and not x.get("a"):
                        out.add(op)  # prefix step on a circulator object
                    u = x.get("u")
                    if u in ids and u not in seen and u != f.id:
                        seen.add(u)
                        out |= reach_ops(ids[u], seen)
            return out
        for f in fs:
            op = f.d.get("op")
            np_ = len(f.d["params"])
            role = None
            if op in ("+", "+=") and np_ == 1 or (op == "++" and np_ == 1):
                role = "++"
            if op in ("-", "-=") and np_ == 1 or (op == "--" and np_ == 1):
                role = "--"
            if role is None:
                continue
            n += 1
            got = reach_ops(f)
            other = "--" if role == "++" else "++"
            ok = role in got and other not in got
            (ck.ok if ok else lambda r, w, t: ck.violate(r, w, t, "C05.arith:%s%d" % (op, np_)))("C05.arith", f.where, "GenericCirculator::operator%s(int) steps with %s only (reaches %s)" % (op, role, sorted(got) or "no step"))
    ck.floor("generic_circulator_arithmetic_members", n, 6)


def collectors(ck, fb):
    """circulators that build their element list in the constructor must look at every candidate"""
    ck.rule("C05.collect", "a circulator constructor that collects its elements (push_back/insert into a member list) leaves none of its loops early: no break / return inside a collecting loop (one audited exception: HalfFaceSheetHalfFaceIter's innermost common-halfedge search)")
    n = nl = 0
    seen = set()
    canons = {}
    from .canon import Canon
    for f in fb.repo_fns():
        if not f.has_cfg or f.kind != "ctor" or "Iter" not in (f.cls or "") or f.where in seen:
            continue
        if "Iterators" not in f.file:
            continue
        pushes = [(b, x) for b, i, x in f.nodes(("call",)) if x.get("pn", "").split("::")[-1] in ("push_back", "insert", "emplace_back") and b in f.reach()]
        if not pushes:
            continue
        seen.add(f.where)
        n += 1
        for hdr, body, backs in f.loops():
            if not any(b in body for b, x in pushes):
                continue
            nl += 1
            early = sorted({bb for bb in body if bb != hdr and any(s_ is not None and s_ not in body for s_ in f.succ(bb))})
            t = f.term(hdr)
            cond = estr(f.resolve(t["cond"])) if t and t.get("cond") else ""
            # a flag that is set in the body and tested in the loop condition is an early exit in disguise
            if t and t.get("cond"):
                cn = canons.setdefault(f.id, Canon(f))
                for y in walk(f.resolve(t["cond"])):
                    if isinstance(y, dict) and y.get("k") == "var" and cn.kind.get(y.get("id")) == "mut" and "bool" in (y.get("t") or ""):
                        if any(m_[1] in body for m_ in cn.mods.get(y["id"], [])):
                            early = sorted(set(early) | {m_[1] for m_ in cn.mods.get(y["id"], []) if m_[1] in body})
            depth = sum(1 for h2, b2, k2 in f.loops() if hdr in b2)
            exc = [why for (cls, dep), why in COLLECT_EXCEPTIONS.items() if cls == f.cls and dep == depth]
            if early and exc:
                ck.ok("C05.collect", f.loc(t) if t else f.where, "%s: early exit of the loop (%s) is the audited exception: %s" % (f.cls.split("::")[-1], cond[:40], exc[0]))
                continue
            (ck.ok if not early else lambda r, w, t_: ck.violate(r, w, t_, "C05.collect:%s" % f.cls))("C05.collect", f.loc(t) if t else f.where, "%s constructor: the collecting loop (%s) runs to its end%s" % (f.cls.split("::")[-1], cond[:50], "" if not early else " - left early from block(s) %s" % early))
    ck.floor("collecting_constructors", n, 12)
    ck.floor("collecting_loops", nl, 20)


# ------------------------------------------------------------------------------------------ entity iterators
def entity_iterators(ck, fb):
    ck.rule("C05.entity", "VertexIter..CellIter: constructor/++/-- step the cursor by one, skip entities with `cursor in range && is_deleted(H(cursor))` in the same direction, invalidate under exactly the complement of the loop's range test, and refresh cur_handle(H(cursor)) on every path; all six classes agree after renaming kind and bound")
    sig = {}
    n = 0
    for name in ENTITY_ITERS:
        cls = "OpenVolumeMesh::" + name
        fns = [f for f in fb.by_cls.get(cls, []) if f.has_cfg and (f.kind == "ctor" and not f.d.get("copy_ctor") and not f.d.get("move_ctor") and not f.d.get("implicit") or (f.d.get("op") in ("++", "--") and not f.d["params"]))]
        if len(fns) < 3:
            raise AnalysisBroken("C05: %s: expected ctor, ++ and --, found %s" % (name, [x.name for x in fns]))
        for f in fns:
            if f.kind == "ctor" and len(f.d["params"]) < 2:
                continue
            n += 1
            role = "ctor" if f.kind == "ctor" else f.d["op"]
            fwd = role != "--"
            where = f.where
            # step
            steps = [(b, i, x) for b, i, x in f.tops() if x.get("k") == "un" and x["op"] in ("pre++", "post++", "pre--", "post--") and mem_name(x["x"]) == "cur_index_"]
            loops = f.loops()
            if len(loops) != 1:
                raise AnalysisBroken("C05: %s::%s: expected exactly one skip loop, found %d" % (name, role, len(loops)))
            hdr, body, backs = loops[0]
            outside = [s for s in steps if s[0] not in body]
            inside = [s for s in steps if s[0] in body]
            want_op = "++" if fwd else "--"
            ok = all(want_op in s[2]["op"] for s in steps) and len(inside) == 1 and len(outside) == (0 if role == "ctor" else 1)
            (ck.ok if ok else lambda r, w, t: ck.violate(r, w, t, "C05.entity:%s:%s:step" % (name, role)))("C05.entity", where, "%s %s: cursor stepped by one (%s) before and inside the skip loop" % (name, role, want_op))
            # loop condition atoms: the facts under which the in-loop step runs
            rng = None
            dele = None
            if inside:
                for c, pol, e in f.facts(inside[0][0]):
                    if pol is not True:
                        continue
                    p = cmp_parts(c)
                    cc = unwrap(c)
                    if p and mem_name(p[1]) == "cur_index_":
                        rng = (p[0], estr(strip_casts(p[2])))
                    elif isinstance(cc, dict) and cc.get("k") == "call" and cc.get("pn", "").endswith("::is_deleted"):
                        dele = estr(unwrap(cc["a"][0]))
            if rng is None or dele is None:
                raise AnalysisBroken("C05: %s::%s: skip loop condition not of the form `cursor <op> bound && is_deleted(H(cursor))`" % (name, role))
            ok = "cur_index_" in dele and (rng[0] == "<" if fwd else (rng[0] == ">=" and rng[1] == "0"))
            (ck.ok if ok else lambda r, w, t: ck.violate(r, w, t, "C05.entity:%s:%s:loop" % (name, role)))("C05.entity", where, "%s %s: skip loop runs while cursor %s %s and is_deleted(%s)" % (name, role, rng[0], rng[1], dele))
            # invalidation guard = complement with the same bound
            inval = None
            for b, i, x in f.nodes(("call",)):
                if x.get("pn", "").endswith("::valid") and x.get("a"):
                    a0 = unwrap(f.resolve(x["a"][0]))
                    if isinstance(a0, dict) and a0.get("k") == "lit" and a0.get("v") is False:
                        for c, pol, e in f.facts(b):
                            p = cmp_parts(c)
                            if p and mem_name(p[1]) == "cur_index_" and pol is True:
                                inval = (p[0], estr(strip_casts(p[2])))
            comp = {"<": ">=", ">=": "<"}
            ok = inval is not None and inval == (comp.get(rng[0]), rng[1])
            (ck.ok if ok else lambda r, w, t: ck.violate(r, w, t, "C05.entity:%s:%s:invalidate" % (name, role)))("C05.entity", where, "%s %s: valid(false) exactly when cursor %s %s (complement of the loop's range test)" % (name, role, comp.get(rng[0]), rng[1]))
            # cur_handle refresh on every path
            ch = [(b, i) for b, i, x in f.nodes(("call",)) if x.get("pn", "").endswith("::cur_handle") and x.get("a")]
            pd = f.postdominators()
            ok = any(b in pd.get(f.entry, ()) for b, i in ch)
            (ck.ok if ok else lambda r, w, t: ck.violate(r, w, t, "C05.entity:%s:%s:handle" % (name, role)))("C05.entity", where, "%s %s: cur_handle(H(cursor)) refreshed on every path" % (name, role))
            sig[(name, role)] = (rng, inval)
    ck.floor("entity_iterator_bodies", n, 18)
    # bound agreement with K_end()
    bounds = {}
    for (name, role), (rng, inval) in sig.items():
        if role != "--":
            bounds.setdefault(name, set()).add(rng[1])
    for name, bs in bounds.items():
        ok = len(bs) == 1
        (ck.ok if ok else lambda r, w, t: ck.violate(r, w, t, "C05.entity:%s:bound" % name))("C05.entity", name, "%s: constructor and ++ use the same bound %s" % (name, sorted(bs)))
    ends = {"VertexIter": "vertices_end", "EdgeIter": "edges_end", "HalfEdgeIter": "halfedges_end", "FaceIter": "faces_end", "HalfFaceIter": "halffaces_end", "CellIter": "cells_end"}
    for name, endf in ends.items():
        fs = [f for f in fb.by_cls.get(TK, []) if f.name == endf and f.has_cfg]
        if not fs:
            raise AnalysisBroken("anchor vanished: TopologyKernel::" + endf)
        f = fs[0]
        ret = [x for b, i, x in f.tops() if x.get("k") == "ret"][0]
        txt = estr(ret)
        b = sorted(bounds[name])[0].replace("mesh().", "").replace("(", "").replace(")", "").replace(" ", "")
        t2 = txt.replace("(", "").replace(")", "").replace(" ", "")
        ok = b in t2
        (ck.ok if ok else lambda r, w, t: ck.violate(r, w, t, "C05.entity:%s:end" % name))("C05.entity", f.where, "%s() constructs the end iterator at the iterator's own bound %s" % (endf, sorted(bounds[name])[0]))


# ------------------------------------------------------------------------------------------ circulators
def revalidate_rule(ck, fb):
    """stepping backward from the end (or from any position reached by ++ past the last element) must make the iterator
    valid again: the flag is a function of the position, so operator-- has to write it on every path"""
    ck.rule("C05.revalidate", "operator-- of every entity iterator, boundary iterator and circulator writes the validity flag on EVERY path (valid(<position test>), or valid(true) on the in-range side next to valid(false)): an operator-- that can only call valid(false) leaves an iterator that was stepped past the end invalid for ever - --(++it) != it at the last element, and `for (it = --end; it.valid(); --it)` visits nothing")
    n = 0
    seen = set()
    for cls in sorted(set(list(circ_classes(fb)) + ["OpenVolumeMesh::" + nm for nm in ENTITY_ITERS] + [c for c in fb.records if c.startswith("OpenVolumeMesh::BoundaryItemIter<")])):
        for f in fb.by_cls.get(cls, []):
            if not (f.has_cfg and f.d.get("op") == "--" and not f.d["params"]) or f.where in seen:
                continue
            seen.add(f.where)
            n += 1
            setters = set()
            for b, i, x in f.nodes(("call",)):
                if b in f.reach() and x.get("pn", "").split("::")[-1] == "valid" and len(x.get("a", [])) == 1:
                    setters.add(b)
            # is there a path entry -> exit that avoids every setter block?
            seen_b, work, free = set(), [f.entry], False
            while work:
                u = work.pop()
                if u in seen_b or u in setters:
                    continue
                seen_b.add(u)
                if u == 0 or not f.succ(u):
                    free = True
                    break
                work += [s_ for s_ in f.succ(u) if s_ is not None]
            short = re.sub(r"<.*", "", cls_short(cls))
            (ck.ok if not free else lambda r_, w_, t_: ck.violate(r_, w_, t_, "C05.revalidate:%s" % short))("C05.revalidate", f.where, "%s::operator-- writes the validity flag on every path%s" % (short, "" if not free else " - it can only invalidate (%d valid() call site(s))" % len(setters)))
    ck.floor("backward_operators", n, 30)


def circ_classes(fb):
    out = {}
    for name, r in fb.records.items():
        if "/src/OpenVolumeMesh/" not in r["file"]:
            continue
        if name.startswith("OpenVolumeMesh::BaseCirculator<") or name.startswith("OpenVolumeMesh::GenericCirculator<"):
            continue
        if any(b.startswith("OpenVolumeMesh::BaseCirculator<") for b in fb.bases(name)):
            out[name] = r
    return out


def circulators(ck, fb):
    ck.rule("C05.circ++", "operator++ of every circulator: advance the cursor; when it reaches the end of the container wrap to the beginning and increment lap_; invalidate iff lap_ >= max_laps_ afterwards; refresh cur_handle on every path from the same container the wrap test measures")
    ck.rule("C05.circ--", "operator-- mirrors ++: at the beginning wrap to size-1 and decrement lap_, invalidate iff lap_ < 0, otherwise step back; refresh cur_handle on every path on which the circulator stays valid")
    ck.rule("C05.delegate", "a circulator built on an inner circulator steps the inner one and synchronises lap, valid and cur_handle from it in ++ and --")
    ck.rule("C05.laps", "every circulator constructor forwards its _max_laps parameter to BaseCirculator and to every inner circulator it constructs")
    ck.rule("C05.empty", "constructors of circulators whose incident set can be empty for a legal centre (target dimension >= centre dimension, boundary and sheet circulators) read the first element only behind valid()/size()/empty() - a centre with nothing incident yields an immediately invalid circulator")
    ck.rule("C05.set", "circulators over a set relation remove duplicates (sort+unique or std::set membership) before the first element is exposed")
    classes = circ_classes(fb)
    n_ops = 0
    n_cls = 0
    for cls, rec in sorted(classes.items()):
        short = cls_short(cls)
        fns = [f for f in fb.by_cls.get(cls, []) if f.has_cfg]
        ctors = [f for f in fns if f.kind == "ctor" and not f.d.get("implicit") and not f.d.get("copy_ctor") and not f.d.get("move_ctor") and f.d["params"]]
        incs = [f for f in fns if f.d.get("op") == "++" and not f.d["params"]]
        decs = [f for f in fns if f.d.get("op") == "--" and not f.d["params"]]
        if ctors:
            n_cls += 1
        inner = [fl for fl in rec["fields"] if any(b.startswith("OpenVolumeMesh::BaseCirculator<") for b in fb.bases(fl["t"].replace("const ", "")))]
        for f in incs + decs:
            n_ops += 1
            inc = f.d["op"] == "++"
            rule = "C05.circ++" if inc else "C05.circ--"
            key = "%s:%s" % (short, f.d["op"])
            if inner:
                delegate_rule(ck, fb, f, short, inner, inc)
                continue
            calls = list(f.nodes(("call",)))
            valid_false = []
            for b, i, x in calls:
                if x.get("pn", "").endswith("::valid") and x.get("a"):
                    a0 = unwrap(f.resolve(x["a"][0]))
                    if isinstance(a0, dict) and a0.get("k") == "lit" and a0.get("v") is False:
                        valid_false.append((b, i))
            laps = [(b, i, x) for b, i, x in f.tops() if x.get("k") == "un" and mem_name(x["x"]) == "lap_"]
            cur_handle = [(b, i, x) for b, i, x in calls if x.get("pn", "").endswith("::cur_handle") and x.get("a")]
            if not laps or not valid_false or not cur_handle:
                raise AnalysisBroken("C05: %s::operator%s: shape not recognised (lap steps %d, valid(false) %d, cur_handle %d)" % (short, f.d["op"], len(laps), len(valid_false), len(cur_handle)))
            lb, li, lx = laps[0]
            ok = len(laps) == 1 and (("++" in lx["op"]) == inc)
            (ck.ok if ok else lambda r, w, t: ck.violate(r, w, t, "%s:%s:lapstep" % (rule, key)))(rule, f.loc(lx), "%s %s: lap_ changes by one in the direction of the step, on the wrap path only" % (short, f.d["op"]))
            # wrap condition = the facts guarding the lap step
            wf = [(c, pol) for c, pol, e in f.facts(lb) if isinstance(pol, bool)]
            if len(wf) != 1:
                raise AnalysisBroken("C05: %s::operator%s: lap step guarded by %d conditions" % (short, f.d["op"], len(wf)))
            wc, wpol = wf[0]
            p = cmp_parts(wc)
            wtxt = estr(wc)
            if inc:
                ok = bool(p) and wpol is True and p[0] in (">=", "==") and ("size()" in wtxt or "end" in wtxt or "n_" in wtxt)
            else:
                ok = bool(p) and wpol is True and p[0] == "==" and (estr(strip_casts(p[2])) == "0" or "begin" in wtxt)
            (ck.ok if ok else lambda r, w, t: ck.violate(r, w, t, "%s:%s:wrap" % (rule, key)))(rule, f.loc(lx), "%s %s: wrap exactly when %s" % (short, f.d["op"], wtxt))
            # invalidation condition
            for vb, vi in valid_false:
                vf = [(estr(c), pol) for c, pol, e in f.facts(vb) if isinstance(pol, bool)]
                lapc = [(c, pol) for c, pol in vf if "lap_" in c]
                want = "(this.lap_ >= this.max_laps_)" if inc else "(this.lap_ < 0)"
                ok = len(lapc) == 1 and lapc[0] == (want, True) and (wtxt, True) in vf and f.dominates((lb, li), (vb, vi))
                (ck.ok if ok else lambda r, w, t: ck.violate(r, w, t, "%s:%s:invalidate" % (rule, key)))(rule, f.loc(f.elem(vb, vi)), "%s %s: valid(false) iff wrapped and %s after the lap update (found %s)" % (short, f.d["op"], want, lapc))
            # cur_handle on every path (for --: on every path that stays valid)
            pd = f.postdominators()
            on_all = any(b in pd.get(f.entry, ()) for b, i, x in cur_handle)
            if not on_all and not inc:
                # allowed: early return only on the invalidating path
                exits_without = True
                seen, st = set(), [f.entry]
                chb = {b for b, i, x in cur_handle}
                vfb = {b for b, i in valid_false}
                bad = False
                # DFS over paths avoiding cur_handle blocks: reaching exit is only allowed through a valid(false) block
                st = [(f.entry, False)]
                vis = set()
                while st:
                    b, inv = st.pop()
                    if (b, inv) in vis:
                        continue
                    vis.add((b, inv))
                    if b in chb:
                        continue
                    inv2 = inv or b in vfb
                    if b == f.exit and not inv2:
                        bad = True
                    st.extend((s, inv2) for s in f.succ(b) if s is not None)
                on_all = not bad
            (ck.ok if on_all else lambda r, w, t: ck.violate(r, w, t, "%s:%s:handle" % (rule, key)))(rule, f.where, "%s %s: cur_handle refreshed on every path%s" % (short, f.d["op"], "" if inc else " that stays valid"))
            # same container in wrap test and handle read (index based)
            if inc and "size()" in wtxt:
                cont = None
                for x in walk(wc):
                    if isinstance(x, dict) and x.get("k") == "call" and x.get("pn", "").endswith("::size") and x.get("r") is not None:
                        cont = estr(x["r"])
                hb, hi, hx = cur_handle[-1]
                htxt = estr(f.resolve(hx["a"]))
                idxs = [estr(y["b"]) for y in walk(f.resolve(hx["a"])) if isinstance(y, dict) and y.get("k") == "idx"]
                if cont and idxs:
                    ok = cont in idxs
                    (ck.ok if ok else lambda r, w, t: ck.violate(r, w, t, "%s:%s:container" % (rule, key)))(rule, f.loc(hx), "%s ++: the wrap test measures %s, the handle is read from %s" % (short, cont, idxs))
        # constructors of circulators whose incident set can be empty: the first element is only read behind an emptiness guard
        dims = {"VH": 0, "EH": 1, "HEH": 1, "FH": 2, "HFH": 2, "CH": 3}
        base = [b for b in fb.bases(cls) if b.startswith("OpenVolumeMesh::BaseCirculator<")]
        downward = False
        if base:
            args = base[0][len("OpenVolumeMesh::BaseCirculator<"):-1].replace("OpenVolumeMesh::", "").split(",")
            if len(args) == 2 and args[0].strip() in dims and args[1].strip() in dims:
                downward = dims[args[1].strip()] < dims[args[0].strip()]
        if not downward:
            for f in ctors:
                for b, i, x in f.nodes(("call",)):
                    if x.get("pn", "").endswith("::cur_handle") and x.get("a") and b in f.reach():
                        tree = f.resolve(x["a"])
                        reads = [y for y in walk(tree) if isinstance(y, dict) and (y.get("k") == "idx" or (y.get("k") == "un" and y.get("op") == "*") or (y.get("k") == "call" and y.get("op") == "*"))]
                        if not reads:
                            continue
                        facts = [(estr(c), pol) for c, pol, e in f.facts(b)]
                        ok = any(("valid()" in s2 and pol is True) or ("size()" in s2) or ("empty()" in s2) or (".end()" in s2 and "!=" in s2 and pol is True) for s2, pol in facts)
                        (ck.ok if ok else lambda r, w, t: ck.violate(r, w, t, "C05.empty:%s" % short))("C05.empty", f.loc(x), "%s constructor reads its first element only behind an emptiness/validity guard" % short)
        # constructors: _max_laps forwarding
        for f in ctors:
            mlp = [p for p in f.d["params"] if p["t"] == "int"]
            if not mlp:
                continue
            pid = mlp[-1]["id"]
            inits = [(b, i, x) for b, i, x in f.elements() if x.get("k") == "minit"]
            base_ok = False
            inner_ok = True
            for b, i, x in inits:
                tree = f.resolve(x.get("x"))
                uses = any(isinstance(y, dict) and y.get("k") == "var" and y.get("id") == pid for y in walk(tree))
                if x.get("base") and "BaseCirculator" in x["base"] or x.get("base") and any(bb.startswith("OpenVolumeMesh::BaseCirculator<") for bb in fb.bases(x["base"])) or (x.get("base") or "").startswith("OpenVolumeMesh::BaseCirculator<"):
                    base_ok = base_ok or uses
                if x.get("f") and x["f"] in [fl["n"] for fl in inner]:
                    inner_ok = inner_ok and uses
            (ck.ok if (base_ok and inner_ok) else lambda r, w, t: ck.violate(r, w, t, "C05.laps:%s" % short))("C05.laps", f.where, "%s constructor forwards %s to its base%s" % (short, mlp[-1]["n"], " and to its inner circulator" if inner else ""))
        # set relations
        sname = short.split("<")[0]
        if sname in ("VertexVertexIter", "CellFaceIterImpl") and ck.pid != "C05":
            pass  # the audit's additions are judged under C05 only (other properties share the protocol rules, not this clause)
        elif sname in SET_RELATIONS and ctors:
            f = ctors[0]
            names = [x.get("pn", "") for b, i, x in f.nodes(("call",))]
            has_sort = any(nm == "std::sort" for nm in names) and any(nm == "std::unique" for nm in names)
            has_set = any(nm.startswith("std::set::") and nm.split("::")[-1] in ("count", "find", "insert") for nm in names) or any(v["t"].startswith("std::set<") for b, i, d in f.nodes(("decl",)) for v in d["vars"])
            # delegated to an inner set circulator?
            deleg = bool(inner)
            ok = has_sort or has_set or deleg
            (ck.ok if ok else lambda r, w, t: ck.violate(r, w, t, "C05.set:%s" % sname))("C05.set", f.where, "%s removes duplicates before exposing elements (%s) - %s" % (sname, "sort+unique" if has_sort else "std::set" if has_set else "inner circulator" if deleg else "none", SET_RELATIONS[sname]))
    ck.analysed["circulator_classes"] = n_cls
    ck.analysed["circulator_step_bodies"] = n_ops
    ck.floor("circulator_classes", n_cls, 27)
    ck.floor("circulator_step_bodies", n_ops, 50)


def delegate_rule(ck, fb, f, short, inner, inc):
    names = [fl["n"] for fl in inner]
    op = "++" if inc else "--"
    stepped = set()
    for b, i, x in f.nodes(("call", "un")):
        if x.get("k") == "call" and x.get("op") == op and x.get("r") is not None:
            m = mem_name(f.resolve(x["r"]))
            if m in names:
                stepped.add(m)
    sync = {"lap": False, "valid": False, "cur_handle": False}
    for b, i, x in f.nodes(("call",)):
        nm = x.get("pn", "").split("::")[-1]
        if nm in sync and x.get("a"):
            tree = f.resolve(x["a"])
            src = [y for y in walk(tree) if isinstance(y, dict) and y.get("k") == "mem" and y.get("f") in names]
            if src:
                if nm == "cur_handle":
                    sync[nm] = True
                else:
                    inner_calls = [y.get("pn", "").split("::")[-1] for y in walk(tree) if isinstance(y, dict) and y.get("k") == "call"]
                    if nm in inner_calls:
                        sync[nm] = True
    ok = bool(stepped) and all(sync.values())
    (ck.ok if ok else lambda r, w, t: ck.violate(r, w, t, "C05.delegate:%s:%s" % (short, op)))("C05.delegate", f.where, "%s %s steps %s and copies lap/valid/cur_handle from it (%s)" % (short, op, sorted(stepped) or names, sync))


# ------------------------------------------------------------------------------------------ ranges
def ranges(ck, fb):
    ck.rule("C05.range", "every circulator range accessor returns (begin, make_end_circulator(begin)) built from one begin circulator; make_end_circulator moves a valid circulator to lap == max_laps and valid == false")
    n = 0
    for f in fb.fns.values():
        if not f.has_cfg or not f.cls or not fb.derived_from(f.cls, TK) or "/src/OpenVolumeMesh/" not in f.file:
            continue
        rt = f.d.get("ret", "")
        if not rt.startswith("std::pair<"):
            continue
        inner_t = rt[len("std::pair<"):].split(",")[0].strip()
        if not any(b.startswith("OpenVolumeMesh::BaseCirculator<") for b in fb.bases(inner_t)):
            continue
        n += 1
        rets = [x for b, i, x in f.tops() if x.get("k") == "ret"]
        ok = False
        if len(rets) == 1:
            calls = [y for y in walk(rets[0]) if isinstance(y, dict) and y.get("k") == "call"]
            mp = [y for y in calls if y.get("pn") == "std::make_pair"]
            me = [y for y in calls if y.get("pn", "").endswith("make_end_circulator")]
            if mp and not me:
                # (begin, end) with `end` initialised from make_end_circulator(begin)
                a1 = unwrap(mp[0]["a"][1])
                if isinstance(a1, dict) and a1.get("k") == "var":
                    for b, i, d in f.nodes(("decl",)):
                        for v in d["vars"]:
                            if v["id"] == a1["id"] and v.get("init") is not None:
                                me = [y for y in walk(f.resolve(v["init"])) if isinstance(y, dict) and y.get("k") == "call" and y.get("pn", "").endswith("make_end_circulator")]
            if mp and me:
                a0 = unwrap(mp[0]["a"][0])
                e0 = unwrap(me[0]["a"][0])
                ok = isinstance(a0, dict) and isinstance(e0, dict) and a0.get("k") == "var" and e0.get("k") == "var" and a0["id"] == e0["id"]
        (ck.ok if ok else lambda r, w, t: ck.violate(r, w, t, "C05.range:%s" % f.pq))("C05.range", f.where, "%s returns (begin, make_end_circulator(begin))" % f.name)
    ck.floor("circulator_range_accessors", n, 26)
    mes = [f for f in fb.fns.values() if f.has_cfg and f.pq.endswith("make_end_circulator")]
    if not mes:
        raise AnalysisBroken("no instantiation of make_end_circulator found")
    for f in mes[:40]:
        lap = [(b, x) for b, i, x in f.nodes(("call",)) if x.get("pn", "").split("::")[-1] == "lap" and x.get("a")]
        val = [(b, x) for b, i, x in f.nodes(("call",)) if x.get("pn", "").split("::")[-1] == "valid" and x.get("a")]
        ok = bool(lap) and bool(val)
        if ok:
            la = estr(f.resolve(lap[0][1]["a"]))
            va = estr(f.resolve(val[0][1]["a"]))
            guarded = any("valid()" in estr(c) and pol is True for c, pol, e in f.facts(lap[0][0]))
            ok = "max_laps()" in la and va == "false" and guarded
    ck.ok("C05.range", mes[0].where, "make_end_circulator (%d instantiations): under valid() sets lap(max_laps()) and valid(false)" % len(mes)) if ok else ck.violate("C05.range", mes[0].where, "make_end_circulator does not set lap(max_laps())/valid(false) under valid()", "C05.range:make_end_circulator")
