"""Compile-fail witnesses: static_assert batches over the repository's own constexpr code."""
import os
import re
import subprocess
import time

from .extract import VERIF, GEN, SRC, AnalysisBroken


def compile_witness(ck, rule, src, extra_flags=(), compilers=("clang++",), steps=400000000):
    """compiles /verif/witness/<src> with -fsyntax-only; a failing static_assert is a violation (its message names
    the law), any other diagnostic is 'analysis broken'"""
    path = src if os.path.isabs(src) else os.path.join(VERIF, "witness", src)
    src = os.path.basename(src)
    n_asserts = len(re.findall(r"\bstatic_assert\s*\(", open(path).read()))
    for cxx in compilers:
        cmd = [cxx, "-fsyntax-only", "-std=gnu++17", "-DNDEBUG", "-I" + SRC, "-I" + GEN, "-ferror-limit=0" if "clang" in cxx else "-fmax-errors=0"]
        if "clang" in cxx:
            cmd.append("-fconstexpr-steps=%d" % steps)
        else:
            cmd += ["-fconstexpr-ops-limit=%d" % steps, "-fconstexpr-loop-limit=%d" % steps]
        cmd += list(extra_flags) + [path]
        t0 = time.time()
        p = subprocess.run(cmd, stdout=subprocess.PIPE, stderr=subprocess.STDOUT, text=True)
        dt = time.time() - t0
        out = p.stdout
        failed = re.findall(r"static[_ ]assert(?:ion)? failed[^\n]*?\"([^\"\n]*)\"", out)
        failed += [m for m in re.findall(r"static assertion failed: ([^\n]*)", out) if m not in failed]
        other = [l for l in out.splitlines() if " error: " in l and "static_assert" not in l and "static assertion" not in l]
        if other:
            raise AnalysisBroken("witness %s does not compile with %s: %s" % (src, cxx, other[0][:300]))
        if p.returncode != 0 and not failed:
            raise AnalysisBroken("witness %s: %s failed without a static_assert message:\n%s" % (src, cxx, out[-600:]))
        seen = set()
        for msg in failed:
            if msg in seen:
                continue
            seen.add(msg)
            ck.violate(rule, "witness/%s" % src, "compile-time law violated: %s" % msg, "%s:%s" % (rule, re.sub(r"[^A-Za-z0-9]+", "_", msg)[:80]))
        ok_n = n_asserts - len(seen)
        ck.ok(rule, "witness/%s" % src, "%d static_assert laws hold (%s, %.1fs)" % (ok_n, cxx, dt))
        ck.count("static_asserts_" + src, n_asserts)
        ck.samples.append({"witness": src, "compiler": cxx, "static_asserts": n_asserts, "failed": sorted(seen), "seconds": round(dt, 1)})
    return n_asserts


def function_text(path, line, name):
    """source text of the function definition `name` that starts at `line` of `path` (declarator through the matching
    closing brace), comments stripped"""
    lines = open(path).read().split("\n")
    txt = "\n".join(lines[line - 1:])
    # back up to the start of the declaration when the declarator spans lines
    if name not in lines[line - 1]:
        raise AnalysisBroken("%s:%d does not start the definition of %s" % (path, line, name))
    txt = re.sub(r"//[^\n]*", "", txt)
    txt = re.sub(r"/\*.*?\*/", "", txt, flags=re.S)
    i = txt.find("{")
    if i < 0:
        raise AnalysisBroken("%s:%d: no body found for %s" % (path, line, name))
    depth = 0
    for j in range(i, len(txt)):
        if txt[j] == "{":
            depth += 1
        elif txt[j] == "}":
            depth -= 1
            if depth == 0:
                return txt[:j + 1]
    raise AnalysisBroken("%s:%d: unbalanced braces in %s" % (path, line, name))
