#!/bin/bash
# builds the libTooling fact extractor (offline; links libclang-cpp by path)
set -e
cd "$(dirname "$0")"
mkdir -p build out evidence
if [ ! -x build/ovm-extract ] || [ tools/ovm-extract.cc -nt build/ovm-extract ]; then
  clang++ $(llvm-config-14 --cxxflags) -fno-rtti -O1 tools/ovm-extract.cc -o build/ovm-extract \
    /usr/lib/llvm-14/lib/libclang-cpp.so.14 /usr/lib/llvm-14/lib/libLLVM-14.so
fi
echo "setup ok"
