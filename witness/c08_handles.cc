// Compile-time witnesses for C08 (handle algebra).  Compiled with -fsyntax-only -DNDEBUG;
// a failing static_assert message starts with the property id.
#include <OpenVolumeMesh/Core/Handles.hh>
using namespace OpenVolumeMesh;

#ifndef VERIF_RANGE
#define VERIF_RANGE (1 << 12)
#endif

template <class Super, class Sub>
constexpr bool laws_at(int q) {
  Super e(q);
  for (int s = 0; s < 2; ++s) {
    Sub h = [&] { if constexpr (std::is_same_v<Super, EH>) return e.halfedge_handle(s); else return e.halfface_handle(s); }();
    Super back = [&] { if constexpr (std::is_same_v<Super, EH>) return h.edge_handle(); else return h.face_handle(); }();
    if (!(back == e)) return false;                               // full(half(e,s)) == e
    if (h.subidx() != s) return false;                            // subidx(half(e,s)) == s
    if (h.idx() != 2 * q + s) return false;                       // encoding
    Sub o = h.opposite_handle();
    if (!(o.opposite_handle() == h)) return false;                // opp(opp(h)) == h
    if (o == h) return false;                                     // opp has no fixed point
    Super ob = [&] { if constexpr (std::is_same_v<Super, EH>) return o.edge_handle(); else return o.face_handle(); }();
    if (!(ob == e)) return false;                                 // full(opp(h)) == full(h)
    if (o.subidx() != 1 - s) return false;                        // subidx(opp(h)) == 1 - subidx(h)
    Sub again = [&] { if constexpr (std::is_same_v<Super, EH>) return back.halfedge_handle(h.subidx()); else return back.halfface_handle(h.subidx()); }();
    if (!(again == h)) return false;                              // half(full(h), subidx(h)) == h
  }
  return true;
}

template <class Super, class Sub>
constexpr bool laws_range(int from, int to) {
  for (int q = from; q < to; ++q)
    if (!laws_at<Super, Sub>(q)) return false;
  return true;
}

constexpr int TOP = 1 << 30;  // one past the largest full index: 2 * (2^30 - 1) + 1 == INT_MAX is the largest half index
constexpr int MID = 1 << 29;  // a guard written against the wrong power of two would cut the domain here

static_assert(laws_at<EH, HEH>(0) && laws_at<EH, HEH>(1) && laws_at<EH, HEH>(TOP - 1), "C08: edge/halfedge handle laws fail at a boundary index");
static_assert(laws_at<FH, HFH>(0) && laws_at<FH, HFH>(1) && laws_at<FH, HFH>(TOP - 1), "C08: face/halfface handle laws fail at a boundary index");
static_assert(laws_range<EH, HEH>(0, VERIF_RANGE), "C08: edge/halfedge handle laws fail in the low range");
static_assert(laws_range<FH, HFH>(0, VERIF_RANGE), "C08: face/halfface handle laws fail in the low range");
static_assert(laws_range<EH, HEH>(TOP - VERIF_RANGE, TOP), "C08: edge/halfedge handle laws fail in the high range");
static_assert(laws_range<FH, HFH>(TOP - VERIF_RANGE, TOP), "C08: face/halfface handle laws fail in the high range");
static_assert(laws_range<EH, HEH>(MID - VERIF_RANGE / 2, MID + VERIF_RANGE / 2), "C08: edge/halfedge handle laws fail around 2^29");
static_assert(laws_range<FH, HFH>(MID - VERIF_RANGE / 2, MID + VERIF_RANGE / 2), "C08: face/halfface handle laws fail around 2^29");
