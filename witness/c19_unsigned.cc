// Compile witness for C19 (F68): the norms that sum absolute values exist for unsigned vectors too.
// A compile error here is the violation (std::abs is ambiguous for unsigned scalars).
#include <OpenVolumeMesh/Geometry/VectorT.hh>
unsigned c19_unsigned_norms() {
  OpenVolumeMesh::Geometry::Vec3ui v(1u, 2u, 3u);
  OpenVolumeMesh::Geometry::Vec2ui w(1u, 2u);
  return v.l1_norm() + v.mean_abs() + w.l1_norm() + w.mean_abs() + v.max_abs() + v.min_abs() + v.l8_norm();
}
