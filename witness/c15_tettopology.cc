// Compile-time witnesses for C15 (TetTopology label tables).  -fsyntax-only -DNDEBUG.
#include <OpenVolumeMesh/Unstable/Topology/TetTopology.hh>
#include <utility>
using TT = OpenVolumeMesh::TetTopology;
using VL = TT::VertexLabel;
using HEL = TT::HalfEdgeLabel;
using HFL = TT::HalfFaceLabel;

// ---- names encode the vertices ---------------------------------------------------------------
#define HE_NAME(X, Y)                                                                         \
  static_assert(TT::hel<TT::X, TT::Y>() == TT::X##Y, "C15: hel<" #X "," #Y "> is not " #X #Y); \
  static_assert(TT::hel_from<TT::X##Y>() == TT::X, "C15: hel_from<" #X #Y "> is not " #X);     \
  static_assert(TT::hel_to<TT::X##Y>() == TT::Y, "C15: hel_to<" #X #Y "> is not " #Y);         \
  static_assert(TT::opposite(TT::X##Y) == TT::Y##X, "C15: opposite(" #X #Y ") is not " #Y #X); \
  static_assert(TT::is_forward(TT::X##Y) != TT::is_forward(TT::Y##X), "C15: exactly one of " #X #Y "/" #Y #X " must be forward");
HE_NAME(A, B) HE_NAME(B, C) HE_NAME(C, A) HE_NAME(C, D) HE_NAME(A, D) HE_NAME(B, D)
HE_NAME(B, A) HE_NAME(C, B) HE_NAME(A, C) HE_NAME(D, C) HE_NAME(D, A) HE_NAME(D, B)

#define HF_NAME(X, Y, Z)                                                                                   \
  static_assert(TT::has_start(TT::X##Y##Z), "C15: " #X #Y #Z " must have a start vertex");                   \
  static_assert(TT::hfl_vl<TT::X##Y##Z, 0>() == TT::X, "C15: first vertex of " #X #Y #Z " is not " #X);      \
  static_assert(TT::hfl_vl<TT::X##Y##Z, 1>() == TT::Y, "C15: second vertex of " #X #Y #Z " is not " #Y);     \
  static_assert(TT::hfl_vl<TT::X##Y##Z, 2>() == TT::Z, "C15: third vertex of " #X #Y #Z " is not " #Z);      \
  static_assert(TT::hfl_hel<TT::X##Y##Z, 0>() == TT::X##Y, "C15: first halfedge of " #X #Y #Z " is not " #X #Y);   \
  static_assert(TT::hfl_hel<TT::X##Y##Z, 1>() == TT::Y##Z, "C15: second halfedge of " #X #Y #Z " is not " #Y #Z);  \
  static_assert(TT::hfl_hel<TT::X##Y##Z, 2>() == TT::Z##X, "C15: third halfedge of " #X #Y #Z " is not " #Z #X);   \
  static_assert(TT::opposite(TT::X##Y##Z) == TT::X##Z##Y, "C15: opposite(" #X #Y #Z ") is not " #X #Z #Y " (same start, reversed rotation)"); \
  static_assert((TT::X##Y##Z & 3) != 0, "C15: " #X #Y #Z " must not be a group label");
// inner
HF_NAME(B, D, C) HF_NAME(C, B, D) HF_NAME(D, C, B)
HF_NAME(A, C, D) HF_NAME(C, D, A) HF_NAME(D, A, C)
HF_NAME(A, D, B) HF_NAME(B, A, D) HF_NAME(D, B, A)
HF_NAME(A, B, C) HF_NAME(B, C, A) HF_NAME(C, A, B)
// outer
HF_NAME(B, C, D) HF_NAME(C, D, B) HF_NAME(D, B, C)
HF_NAME(A, D, C) HF_NAME(C, A, D) HF_NAME(D, C, A)
HF_NAME(A, B, D) HF_NAME(B, D, A) HF_NAME(D, A, B)
HF_NAME(A, C, B) HF_NAME(B, A, C) HF_NAME(C, B, A)

// ---- group structure: label = 4*group + rotation, groups are "opposite vertex" ------------------
template <HFL L>
constexpr bool group_ok() {
  constexpr int g = (L & 15) >> 2;                       // 0..3 = opposite vertex A..D
  constexpr VL opp = static_cast<VL>(g);
  constexpr VL v0 = TT::hfl_vl<L, 0>(), v1 = TT::hfl_vl<L, 1>(), v2 = TT::hfl_vl<L, 2>();
  if (v0 == v1 || v1 == v2 || v0 == v2) return false;    // three distinct vertices
  if (v0 == opp || v1 == opp || v2 == opp) return false; // none is the vertex the group is opposite to
  // orientation: (v0,v1,v2,opp) has the parity of (A,B,C,D) for inner labels, the other parity for outer ones
  int p[4] = {v0, v1, v2, opp};
  int inv = 0;
  for (int i = 0; i < 4; ++i)
    for (int j = i + 1; j < 4; ++j)
      if (p[i] > p[j]) ++inv;
  return ((inv % 2) == 0) == TT::is_inner(L);
}
template <int G, bool Outer>
constexpr bool rotations_ok() {
  constexpr int base = 4 * G + (Outer ? 16 : 0);
  constexpr HFL L1 = static_cast<HFL>(base + 1), L2 = static_cast<HFL>(base + 2), L3 = static_cast<HFL>(base + 3);
  if (!(group_ok<L1>() && group_ok<L2>() && group_ok<L3>())) return false;
  // the three labels are the three rotations of one triangle (distinct start vertices, same cyclic order)
  constexpr VL a0 = TT::hfl_vl<L1, 0>(), a1 = TT::hfl_vl<L1, 1>(), a2 = TT::hfl_vl<L1, 2>();
  auto is_rot = [&](VL b0, VL b1, VL b2) { return (b0 == a1 && b1 == a2 && b2 == a0) || (b0 == a2 && b1 == a0 && b2 == a1); };
  if (!is_rot(TT::hfl_vl<L2, 0>(), TT::hfl_vl<L2, 1>(), TT::hfl_vl<L2, 2>())) return false;
  if (!is_rot(TT::hfl_vl<L3, 0>(), TT::hfl_vl<L3, 1>(), TT::hfl_vl<L3, 2>())) return false;
  if (TT::hfl_vl<L2, 0>() == TT::hfl_vl<L3, 0>()) return false;
  // group labels have no start; inner()/outer()/opposite() stay inside the group
  if (TT::has_start(static_cast<HFL>(base))) return false;
  if (TT::inner(L1) != static_cast<HFL>(4 * G + 1) || TT::outer(L1) != static_cast<HFL>(4 * G + 17)) return false;
  if (TT::is_inner(L1) == Outer) return false;
  return true;
}
static_assert(rotations_ok<0, false>() && rotations_ok<1, false>() && rotations_ok<2, false>() && rotations_ok<3, false>(), "C15: inner halfface label groups are inconsistent (distinct vertices / opposite vertex / rotations / orientation parity)");
static_assert(rotations_ok<0, true>() && rotations_ok<1, true>() && rotations_ok<2, true>() && rotations_ok<3, true>(), "C15: outer halfface label groups are inconsistent (distinct vertices / opposite vertex / rotations / orientation parity)");

// ---- halfedge labels: i and i+3 are vertex-disjoint, forward labels index heh_[0..5] ------------
template <HEL H1, HEL H2>
constexpr bool disjoint() {
  return TT::hel_from<H1>() != TT::hel_from<H2>() && TT::hel_from<H1>() != TT::hel_to<H2>() && TT::hel_to<H1>() != TT::hel_from<H2>() && TT::hel_to<H1>() != TT::hel_to<H2>();
}
static_assert(disjoint<static_cast<HEL>(0), static_cast<HEL>(3)>() && disjoint<static_cast<HEL>(1), static_cast<HEL>(4)>() && disjoint<static_cast<HEL>(2), static_cast<HEL>(5)>(), "C15: halfedge labels i and i+3 must be vertex-disjoint");
static_assert(TT::AB < 6 && TT::BC < 6 && TT::CA < 6 && TT::CD < 6 && TT::AD < 6 && TT::BD < 6, "C15: forward halfedge labels must index heh_[0..5]");
static_assert((TT::BA & 7) == TT::AB && (TT::CB & 7) == TT::BC && (TT::AC & 7) == TT::CA && (TT::DC & 7) == TT::CD && (TT::DA & 7) == TT::AD && (TT::DB & 7) == TT::BD, "C15: backward halfedge labels must map to their forward label by & 7");
static_assert(TT::OppA == 0 && TT::OppB == 4 && TT::OppC == 8 && TT::OppD == 12, "C15: group labels must be 4*vertex (get_label uses idx<<2, hfh<I>() uses I>>2)");
