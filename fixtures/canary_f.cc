// Canary for rule G.fallback (must fire on every run, excluded from the verdict):
// the cache-less sibling branch looks for one fixed orientation of an edge in the stored halfedge lists.
#include <OpenVolumeMesh/Core/TopologyKernel.hh>
namespace verif_canary {
struct CanaryF : OpenVolumeMesh::TopologyKernel {
  int canary_f(OpenVolumeMesh::EdgeHandle e) const {
    int n = 0;
    if (has_edge_bottom_up_incidences()) {
      for (auto hehf_it = hehf_iter(halfedge_handle(e, 0)); hehf_it.valid(); ++hehf_it) ++n;
    } else {
      const OpenVolumeMesh::HalfEdgeHandle ref = halfedge_handle(e, 0);
      for (auto fh : faces())
        for (auto heh : face(fh).halfedges())
          if (heh == ref) ++n;
    }
    return n;
  }
};
int use_canary_f(const CanaryF &m) { return m.canary_f(OpenVolumeMesh::EdgeHandle(0)); }
}  // namespace verif_canary
