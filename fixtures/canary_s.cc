// Canary for rule S.sticky (must fire on every run, excluded from the verdict)
#include <istream>
#include <vector>
namespace verif_canary {
std::vector<char> canary_s(std::istream &s, unsigned n) {
  std::vector<char> v(n);
  s.read(v.data(), n);
  s.clear();
  return v;
}
}  // namespace verif_canary
