// Canary for rule C15.predict (must fire on every run, excluded from the verdict)
#include <OpenVolumeMesh/Mesh/TetrahedralMeshTopologyKernel.hh>
namespace verif_canary {
struct CanaryC15 : OpenVolumeMesh::TetrahedralMeshTopologyKernel {
  bool last_after_delete(OpenVolumeMesh::VertexHandle a, OpenVolumeMesh::VertexHandle b) {
    delete_vertex(a);
    return b.idx() == (int)n_logical_vertices() - 1;
  }
};
}  // namespace verif_canary
