// Canary for rule B (must fire on every run, excluded from the verdict):
// an unbudgeted consumption of decoder bytes reached through a helper from a locally created decoder.
#include <OpenVolumeMesh/IO/detail/Decoder.hh>
namespace verif_canary {
static uint8_t canary_b_peek(OpenVolumeMesh::IO::detail::Decoder &d) { return *(d.cur_++); }
uint8_t canary_b(std::vector<uint8_t> v) {
  OpenVolumeMesh::IO::detail::Decoder d(std::move(v));
  return canary_b_peek(d);
}
}  // namespace verif_canary
