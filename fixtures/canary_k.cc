// Canary for rules K.dep / K.exhaust (must fire on every run, excluded from the verdict)
#include <vector>
namespace verif_canary {
struct KMesh {
  std::vector<std::vector<int>> rows;
  // the hit ignores the second argument, and the candidate loop is left at the first long row
  bool canary_k(int a, int b) const {
    for (const auto &r : rows) {
      for (int x : r) {
        if (x == a) return true;
      }
      if (r.size() > 3) break;
    }
    return false;
  }
};
bool use_canary_k(const KMesh &m) { return m.canary_k(1, 2); }
}  // namespace verif_canary
