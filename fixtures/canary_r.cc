// Canary for rule R.handle (must fire on every run, excluded from the verdict)
#include <OpenVolumeMesh/Core/Handles.hh>
#include <vector>
namespace verif_canary {
OpenVolumeMesh::HalfFaceHandle canary_r(unsigned x) { return OpenVolumeMesh::HalfFaceHandle::from_unsigned(x); }
}  // namespace verif_canary
