// Canary for rule G (must fire on every run, excluded from the verdict):
// a mutator of a TopologyKernel subclass that indexes an optional cache with no guard.
#include <OpenVolumeMesh/Core/TopologyKernel.hh>
namespace verif_canary {
struct CanaryG : OpenVolumeMesh::TopologyKernel {
  void poke(OpenVolumeMesh::HalfFaceHandle h) { incident_cell_per_hf_[h] = OpenVolumeMesh::CellHandle(0); }
};
}  // namespace verif_canary
