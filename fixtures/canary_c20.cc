// Canaries for the C20 effect analysis (must fire on every run, excluded from the verdict)
#include <OpenVolumeMesh/Core/TopologyKernel.hh>
namespace verif_canary {
struct CanaryC20 {
  mutable int cache_ = 0;
  int value_ = 0;
  int lazy() const { cache_ = value_ + 1; return cache_; }
  int counted() const { static int calls = 0; return ++calls; }
  int forced() const { const_cast<CanaryC20 *>(this)->value_ = 1; return value_; }
};
}  // namespace verif_canary
