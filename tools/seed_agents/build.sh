#!/bin/bash
# usage: build.sh <worktree-dir>   -- configures+builds the worktree into <dir>/_build and runs the test-suite
set -e
W=$1
cmake -S $W -B $W/_build -G Ninja -DCMAKE_BUILD_TYPE=RelWithDebInfo -DBUILD_TESTING=ON -DCMAKE_POLICY_VERSION_MINIMUM=3.5 \
 -DFETCHCONTENT_TRY_FIND_PACKAGE_MODE=ALWAYS -DFETCHCONTENT_UPDATES_DISCONNECTED=ON -DFETCHCONTENT_SOURCE_DIR_GOOGLETEST=/usr/src/googletest \
 -DFETCHCONTENT_SOURCE_DIR_GTEST=/usr/src/googletest -DOVM_ENABLE_UNITTESTS=ON -DOVM_BUILD_DOCUMENTATION=OFF -DCMAKE_CXX_FLAGS="-Wno-error" > $W/_build.conf.log 2>&1 || { tail -30 $W/_build.conf.log; exit 1; }
cmake --build $W/_build -j8 > $W/_build.log 2>&1 || { grep -E "error|Error" -A5 $W/_build.log | head -60; exit 1; }
ctest --test-dir $W/_build -j8 --timeout 900 2>&1 | tail -15
