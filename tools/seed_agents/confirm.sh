#!/bin/bash
# usage: confirm.sh <ID> [root]   -- confirms seeds a,b of worktree /tmp/wt/<ID>; writes _seed/<x>/confirm.json
ID=$1; ROOT=${2:-/tmp/wt}; W=$ROOT/$ID; cd $W || exit 1
LIB=$(find $W/_build -name "libOpenVolumeMesh*.a" | head -1)
tests() { ctest --test-dir $W/_build -j4 --timeout 300 2>&1 | grep -E "^\s+[0-9]+ - " | grep -v "PolyhedralFileTest/\*.SaveFile" | sort | tr '\n' ';'; }
demo() { g++ -std=c++17 -O1 -pthread -I$W/src -I$W/_build/src $1 $LIB -o $2 >/dev/null 2>&1 || { echo "BUILDFAIL"; return; }; timeout 300 $2 >/dev/null 2>&1; echo $?; }
git checkout -q -- . 
for x in a b; do
  S=$W/_seed/$x; [ -f $S/patch.diff ] || continue
  git checkout -q -- .
  cmake --build $W/_build -j6 >/dev/null 2>&1
  base_demo=$(demo $S/demo.cc $S/demo_base)
  git apply $S/patch.diff || { echo "{\"id\":\"$ID$x\",\"applies\":false}" > $S/confirm.json; continue; }
  if cmake --build $W/_build -j6 > $S/build.log 2>&1; then compiled=true; else compiled=false; fi
  failed=$(tests)
  mut_demo=$(demo $S/demo.cc $S/demo_mut)
  git checkout -q -- .
  echo "{\"id\":\"$ID$x\",\"applies\":true,\"compiles\":$compiled,\"tests_failing_other_than_known_flaky\":\"$failed\",\"demo_exit_unchanged\":\"$base_demo\",\"demo_exit_with_change\":\"$mut_demo\"}" > $S/confirm.json
  rm -f $S/demo_base $S/demo_mut
done
cmake --build $W/_build -j6 >/dev/null 2>&1
cat $W/_seed/*/confirm.json
