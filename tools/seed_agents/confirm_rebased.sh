#!/bin/bash
# confirms /verif/seeded/<id>/patch_rebased.diff against a worktree of /repo HEAD
W=/tmp/wt/HEAD
if [ ! -d $W ]; then git -C /repo worktree add --detach $W HEAD >/dev/null 2>&1; fi
cd $W && git checkout -q -- . && git checkout -q --detach $(git -C /repo rev-parse HEAD)
[ -d $W/_build ] || /tmp/wt/build.sh $W > /dev/null 2>&1
cmake --build $W/_build -j8 >/dev/null 2>&1
LIB=$(find $W/_build -name "libOpenVolumeMesh*.a" | head -1)
tests() { ctest --test-dir $W/_build -j4 --timeout 300 2>&1 | grep -E "^\s+[0-9]+ - " | grep -v "PolyhedralFileTest/\*.SaveFile" | sort | tr '\n' ';'; }
demo() { g++ -std=c++17 -O1 -pthread -I$W/src -I$W/_build/src $1 $LIB -o $2 >/dev/null 2>&1 || { echo "BUILDFAIL"; return; }; timeout 300 $2 >/dev/null 2>&1; echo $?; }
for id in "$@"; do
  S=/verif/seeded/$id
  git checkout -q -- .; cmake --build $W/_build -j8 >/dev/null 2>&1
  base=$(demo $S/demo.cc /tmp/wt/demo_base_$id)
  git apply $S/patch_rebased.diff || { echo "$id does not apply"; continue; }
  if cmake --build $W/_build -j8 > /tmp/wt/rebased_$id.log 2>&1; then comp=true; else comp=false; fi
  failed=$(tests)
  mut=$(demo $S/demo.cc /tmp/wt/demo_mut_$id)
  git checkout -q -- .
  echo "{\"id\":\"$id\",\"rebased_on\":\"$(git -C /repo rev-parse --short HEAD)\",\"applies\":true,\"compiles\":$comp,\"tests_failing_other_than_known_flaky\":\"$failed\",\"demo_exit_unchanged\":\"$base\",\"demo_exit_with_change\":\"$mut\"}" | tee $S/confirm_rebased.json
  rm -f /tmp/wt/demo_base_$id /tmp/wt/demo_mut_$id
done
cmake --build $W/_build -j8 >/dev/null 2>&1
