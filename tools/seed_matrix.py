#!/usr/bin/env python3
"""for every /verif/seeded/<id>: apply the patch to /repo, run the checks (own property first, then the rest),
revert, and record which checks report a violation.  Usage: seed_matrix.py [seed ids...]"""
import json, os, subprocess, sys, glob
V = os.path.dirname(os.path.dirname(os.path.abspath(__file__)))
REPO = os.environ.get("OVM_REPO", "/repo")
man = json.load(open(V + "/MANIFEST.json"))
claimed = [c["property_id"] for c in man["checks"]]
seeds = sys.argv[1:] or sorted(os.path.basename(p) for p in glob.glob(V + "/seeded/C*"))
def sh(cmd, cwd=None):
    return subprocess.run(cmd, shell=True, cwd=cwd, stdout=subprocess.PIPE, stderr=subprocess.STDOUT, text=True)
if sh("git diff --quiet", REPO).returncode != 0:
    sys.exit(REPO + " has uncommitted changes")
res = {}
for sid in seeds:
    d = os.path.join(V, "seeded", sid)
    patch = os.path.join(d, "patch.diff")
    if json.load(open(os.path.join(d, "meta.json"))).get("obsolete"):
        print(sid, "OBSOLETE (skipped)"); continue
    if os.path.exists(os.path.join(d, "patch_rebased.diff")):
        patch = os.path.join(d, "patch_rebased.diff")  # the original was written against an older revision
    r = sh("git apply %s" % patch, REPO)
    if r.returncode != 0:
        r = sh("git apply --3way %s" % patch, REPO)
    if r.returncode != 0:
        alt = os.path.join(d, "patch_rebased.diff")
        sh("git reset -q --hard HEAD", REPO)
        r = sh("git apply %s" % alt, REPO) if os.path.exists(alt) else r
        if r.returncode != 0:
            print(sid, "PATCH DOES NOT APPLY"); res[sid] = {"applies": False}; sh("git reset -q --hard HEAD", REPO); continue
    fired, broken = {}, []
    order = [sid[:3]] + [c for c in claimed if c != sid[:3]]
    order = [p for p in order if p in claimed]
    if os.environ.get("MATRIX_OWN_ONLY"):
        # quick mode: the seed's own property plus the properties that share rules with it
        SHARE = {"C01": ["C02", "C04", "C12", "C17"], "C02": ["C01", "C04", "C12"], "C03": ["C17"], "C04": ["C01", "C02"], "C08": ["C11", "C15"], "C11": ["C08", "C15", "C16"], "C12": ["C01", "C02"],
                 "C13": ["C14"], "C14": ["C13"], "C15": ["C08", "C11"], "C16": ["C11"], "C17": ["C01", "C03"], "C06": ["C18"], "C07": ["C18"], "C18": ["C06", "C07"]}
        order = [sid[:3]] + [p for p in SHARE.get(sid[:3], []) if p in claimed]
    import concurrent.futures as cf
    outs = {}
    if order:
        outs[order[0]] = sh("./check %s" % order[0], V)  # populates the fact cache for this variant
        with cf.ThreadPoolExecutor(max_workers=6) as ex:
            for pid, o in zip(order[1:], ex.map(lambda p: sh("./check %s" % p, V), order[1:])):
                outs[pid] = o
    for pid in order:
        o = outs[pid]
        if o.returncode == 1:
            fired[pid] = [l.strip()[:200] for l in o.stdout.splitlines() if l.startswith("  [")][:3]
        elif o.returncode == 2:
            broken.append(pid + ": " + " ".join(l for l in o.stdout.splitlines() if "BROKEN" in l)[:200])
    sh("git reset -q --hard HEAD", REPO)
    res[sid] = {"applies": True, "caught_by": fired, "analysis_broken": broken}
    print(sid, "caught by", sorted(fired) or "NOTHING", ("| broken: %s" % broken) if broken else "")
    mp = os.path.join(d, "meta.json")
    meta = json.load(open(mp))
    meta["checks_run"] = order
    meta["caught_by"] = fired
    meta["analysis_broken"] = broken
    json.dump(meta, open(mp, "w"), indent=1)
json.dump(res, open(V + "/out/seed_matrix.json", "w"), indent=1)
# restore evidence for the unchanged tree
for pid in claimed:
    sh("./check %s" % pid, V)
