#!/usr/bin/env python3
"""regenerates the table of DESIGN.md section 8.1 (between the SEED-TABLE markers) from seeded/*/meta.json"""
import glob, json, os, re
V = os.path.dirname(os.path.dirname(os.path.abspath(__file__)))
rows = []
for mp in sorted(glob.glob(os.path.join(V, "seeded", "*", "meta.json"))):
    m = json.load(open(mp))
    sid = m["id"]
    pd = os.path.join(os.path.dirname(mp), "patch.diff")
    fn = sorted({l[6:].strip().split("/")[-1] for l in open(pd) if l.startswith("+++ b/")})
    cb = m.get("caught_by") or {}
    rules = []
    for pid in sorted(cb):
        rs = sorted({re.match(r"\[([^\]]+)\]", l).group(1) for l in cb[pid] if re.match(r"\[([^\]]+)\]", l)})
        rules.append("%s (%s)" % (pid, ", ".join(rs)))
    own = "yes" if sid[:3] in cb else ("**no**" if cb else "-")
    caught = "; ".join(rules) or "**missed**"
    if m.get("obsolete"):
        caught, own = "obsolete: " + m["obsolete"][:110], "-"
    elif not rules and m.get("analysis_broken"):
        caught = "**not judged** (exit 2: %s)" % re.sub(r"\s+", " ", m["analysis_broken"][0])[:120].replace("|", "/")
    if m.get("rebased"):
        sid = sid + " (rebased)"
    rows.append("| %s | %s | %s | %s | %s |" % (sid, ", ".join(fn), m.get("needs_to_manifest", "").replace("|", "/")[:150], caught, own))
tab = "| seed | files | needs, to manifest | caught by (rules) | by its own property's check |\n|---|---|---|---|---|\n" + "\n".join(rows)
p = os.path.join(V, "DESIGN.md")
s = open(p).read()
a, b = "<!-- SEED-TABLE-BEGIN -->", "<!-- SEED-TABLE-END -->"
if a in s:
    s = s[:s.index(a) + len(a)] + "\n" + tab + "\n" + s[s.index(b):]
    open(p, "w").write(s)
    print("table written: %d seeds, %d missed" % (len(rows), sum("**missed**" in r for r in rows)))
else:
    print(tab)
