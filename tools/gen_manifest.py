#!/usr/bin/env python3
"""writes MANIFEST.json from the table below (kept in one place so that it stays valid)"""
import json, os
V = os.path.dirname(os.path.dirname(os.path.abspath(__file__)))
CLAIMED = {
 "C12": dict(technique="static analysis: guard/dominance dataflow over clang CFGs + interprocedural requirement propagation along the resolved call graph (rule family G)",
             text="Decides, for every history and each of the 8 subsets at once, the structural clause 'no element access of an optional bottom-up cache is reachable from a mutator, iterator constructor, garbage collection or file reader without the cache being known to be enabled', plus the enable/disable protocol. Also: recomputation skips pending deletions; cache-less sibling branches never look for one fixed orientation of a full entity in the stored lists. Guards are history independent, so the clause is decided exhaustively; the behavioural half (same mesh as with all kinds enabled) is not decided.",
             design="3/C12, 2/G"),
}
CLAIMED.update({
 "C01": dict(technique="static analysis: effect extraction + lock-step rule L over clang CFG guard sets (definition arrays vs bottom-up caches), cache element link/unlink rules",
             text="Decides the structural necessary conditions of cache/definition inversion: every grow/erase/clear of a definition array is mirrored on the cache of its sub-kind under the cache guard in every mutator and every deletion mode; link sites in add_*, mode-independent unlink sites in delete_*_core, ownership-guarded resets, compute_* running over deleted-skipping ranges, set_* unlink/link; the linked/unlinked VALUES (halfedge (e,0) at from(e), (e,1) at to(e); halfface (f,0) at every halfedge of f, (f,1) at its opposite; c at every halfface of c) in add_*, delete_*_core, compute_* and set_*; the renumbering after an erase; the relabelling in swap_*_indices; reorder_incident_halffaces replaces a list only by a complete permutation. Not decided: that the pushed values are the right ones.",
             design="3/C01, 2/L"),
 "C02": dict(technique="static analysis: lock-step rule L (definition vs deleted flags vs counters), CFG order/reachability rules for the deletion closure, literal rules for the renumbering helpers",
             text="Decides: definition/flag/counter lock-step in all four modes, deferred pair, collect_garbage reset/zero/order, closure order and reverse iteration in delete_vertex/edge/face, closure helpers never touching raw arrays, n_logical_*/genus agreement, renumbering constants and placement, flags and caches travel with a swap, relabelling once per shared entity, leaving deferred mode collects. Not decided: that survivors keep their definitions.",
             design="3/C02, 2/L"),
 "C03": dict(technique="static analysis: lock-step rule L between definition arrays and property notifications incl. position agreement; ResourceManager/PropertyStorage shape rules",
             text="Decides: every grow/erase/clear of a kind is mirrored by the property notification of that kind at the same position and under the same conditions (both directions); half-kind sizing 2n, erase order, tracker/entity-tag agreement in all template instantiations, default fill on every growth call, mesh-kind sizing, property swap in swap_*_indices, the bool storage swap form (self-swap safe), collapse_edge carries halfedge/halfface/cell properties over. Not decided: value preservation itself.",
             design="3/C03, 2/L"),
 "C17": dict(technique="static analysis: lock-step rule L for the swap effect + guard/dominance rules for the no-op return, processed sets and sibling rewrite branches",
             text="Decides: every swap_K_indices swaps definition, flag, properties (half kinds side by side) and cache under identical conditions; swap_bool saves a bool value, not a vector<bool> proxy; self-swap returns before any effect; processed-set protocol (scope, find/insert key = rewritten entry); rewrite tests in both the cache-guided and linear branches. Not decided: involution / untouched others as behaviour.",
             design="3/C17, 2/L"),
})
CLAIMED.update({
 "C07": dict(technique="static analysis: interprocedural byte-budget propagation (rule B) through templates/generic lambdas/virtual codecs, guard-based range/result/empty-sequence rules, loop-exit classification, exception-escape reachability with lexical try regions",
             text="Decides structural necessary conditions of reader memory safety and termination for every byte string: every decoder byte consumption is budgeted before the decoder's creation site; every handle built from a decoded integer is range-checked on that very expression against the right counter (and from below when signed); add_face/add_cell results fail the read; sequence parameters are size-tested before front/back/[k]; every reader loop has a robust exit on every one of its cycles and a count extracted from the stream is not accepted as the only bound of a loop that keeps extracting; add_face/add_cell reject empty lists unconditionally; the handle encoding of a TOPO chunk is never None; add_edge keeps duplicates in readers; no non-allocation throw escapes the readers. Not decided: semantic validity of an accepted mesh beyond handle ranges.",
             design="3/C07, 2/B"),
 "C18": dict(technique="static analysis: CFG path rules over the ReadState protocol (no success after an error state, re-test after every chunk reader), must-hold guard sets at return Ok, validation must-pass-through table, stream-state rules for reader and writer",
             text="Decides: no path from an error ReadState to a success result; chunk readers leave/guard after an error; callers re-test state_; the file body is read only in state HeaderRead; return Ok requires stream exhausted, EOF chunk seen, header counts equal mesh counts and - vertices being pre-allocated from the header - header n_verts equal to the vertices read from chunks; binary-reader handles are bounded by the *_read_ counters; optional chunks are skipped; header/chunk/span validations present on the CFG; the reader never clears the stream state (sticky failbit + mandatory EOF chunk turn stream failures into errors); the writer returns Ok only under ostream.good() after the last write. Not decided: that every inconsistent header byte is caught (only the listed validations).",
             design="3/C18"),
})
CLAIMED.update({
 "C05": dict(technique="static analysis: protocol conformance of every hand-written iterator/circulator body on the clang CFG (guard facts, dominance, post-dominance), sibling agreement of the six entity iterators",
             text="Decides shape clauses for all 6 entity iterators x {ctor,++,--} and all circulator classes: step, skip loop, invalidation under exactly the complement of the loop bound, handle refresh on every path; ++/-- three-way outcome with lap >= max_laps resp. lap < 0; delegating circulators synchronise lap/valid/handle; _max_laps forwarded; duplicate removal for set relations; (begin, make_end_circulator(begin)) ranges and end iterators at the iterator's own bound; collecting constructors leave no loop early (one audited exception); GenericCirculator + / - step in their own direction; the sheet circulator excludes exactly the direction and its opposite. Not decided: that the collected incident set is the right set.",
             design="3/C05"),
 "C20": dict(technique="static analysis: transitive effect analysis over the resolved call graph of all const entry points (mutable members, non-const static storage, const-removing casts, writes to mesh members)",
             text="Sound for the clause: over every repository function reachable from the ~1600 const entry points (kernels, iterators, property handles; property creation excluded as in the statement) there is no access to a mutable member, no non-const static-storage variable, no const-removing cast and no write to a mesh data member; iterators hold the mesh as pointer-to-const. With [res.on.data.races] for const container operations this implies absence of writes to shared state.",
             design="3/C20"),
})
CLAIMED.update({
 "C11": dict(technique="static analysis: no-effect-before-rejection reachability on the CFG (rule N), guard-fact rules for acceptance, valence guards, topology-check index expressions and edge de-duplication",
             text="Decides: no state effect (array growth, cache update, property resize, call of a state-changing kernel member) on any path to a rejecting/deduplicating return of add_edge/add_face/add_cell and the tet/hex overrides; the accepting path appends exactly one definition built from the argument and returns size()-1; tet/hex valence guards 3/4/3 and 4/6/4; add_face checks every consecutive pair and last-to-first; add_cell's sort/adjacent_find/unique pipeline; add_edge dedup in both branches and both orientations. Not decided: that the predicate characterises closed surfaces.",
             design="3/C11, 2/N"),
})
CLAIMED.update({
 "C13": dict(technique="static analysis: ownership rules over record field types and the copy paths (type-directed flow of storage pointers, clone/detach/attach protocol, template-argument agreement across all seven entity instantiations)",
             text="Decides: kernel members have value semantics and defaulted copy operations; ResourceManager/GeometryKernel have user-provided copy operations in which only clone() results are inserted, attached to the target's tracker of the same entity tag, iterating only the persistent set; every user-provided operator= of the hierarchy (ResourceManager, GeometryKernel) starts with the self-assignment guard; ResourceManager's anonymises (clear_props un-persists before clearing the set), resizes all seven kinds to the source's counts, then clones; PropertyStorageT::clone copy-constructs from *this and detaches; Tracker copies never read the source's set. Not decided: value equality of the copy.",
             design="3/C13"),
 "C14": dict(technique="static analysis: guard-fact and N (no effect before throw) rules over all template instantiations of the registry functions, flag/set synchronisation, tracking back-pointer protocol, iteration-mutation check",
             text="Decides: internal_find_property rejects the empty name and matches shared/name/type; create_* only after a failed lookup; request_property finds before creating; transition guards of set_shared/set_persistent with nothing changed before a throw; persistent set and flags change together (incl. clear_props; the storage flags are written by their own setter only); the 68 entity-named convenience members forward with their own entity tag; Tracked/Tracker protocol; no range-for mutates the set it walks. Two genuine defects are recorded as known findings (set_name bypass F16, down-cast of this in Tracked's ctor/dtor F21). Not decided: lifetime safety under arbitrary destruction orders beyond the protocol.",
             design="3/C14"),
})
CLAIMED.update({
 "C04": dict(technique="static analysis: pairing rule P (mode switch restored on every CFG path), collect_garbage shape/order rules, must-pass-through for leaving deferred mode, guard/dominance rules over StatusAttrib::garbage_collection, second-pass safety of delete_cell_core",
             text="Decides: every temporary switch of the deferred-deletion mode is undone on every path; collect_garbage's per-kind reset/zero/order/descending loops and early return; enable_deferred_deletion(false) passes through collect_garbage when the mode was on; StatusAttrib::garbage_collection guards (no double deletion, incidences established before the manifoldness pass, remap under is_valid from maps sized before collection, collection on every path); the second run of delete_cell_core by collect_garbage only resets entries it still owns; incidence recomputation skips pending deletions; manifoldness pass order faces/edges/vertices; the handle remap keeps the four kinds apart (identity fill, inverse map, sizes, application under is_valid); relabelling and renumbering rules of the swap/erase steps. Not decided: equivalence with immediate deletion, correctness of the remap.",
             design="3/C04, 2/P"),
 "C09": dict(technique="static analysis: must-call trigger rule with guard sets (both kinds, no deletion-mode condition, after the unlink), shape rules over the CFG of reorder_incident_halffaces and adjacent_halfface_in_cell",
             text="Decides the triggers and the walk's shape: reorder_incident_halffaces is called in add_cell, delete_face_core, delete_cell_core and both enable functions under exactly 'both kinds available', independent of the deletion mode and after the victim is unlinked; forward walk appends, backward walk uses the opposite halfedge and prepends, both are bounded, the mirrored reverse is written to the opposite halfedge, replacement only when complete; adjacent_halfface_in_cell's acceptance condition has all three conjuncts; the halfedge-halfface circulator's stepping protocol; relabelling of the lists by index swaps; a trigger in a mutator may only be skipped for lists of fewer than two halffaces. Not decided: that the walk produces the rotational order.",
             design="3/C09"),
})
CLAIMED.update({
 "C08": dict(technique="static analysis: symbolic evaluation of the handle conversion functions in the sub-index decomposition domain (linear forms over x=2q+b), static_assert compile-fail witnesses over the constexpr handle members, shape rules for the mirror constructions",
             text="Decides for EVERY index (symbolically, q unbounded): full(half(e,s))=e, subidx(half(e,s))=s, half(full(h),subidx(h))=h, opp(opp(h))=h, full(opp(h))=full(h), subidx(opp(h))=1-subidx(h) for both the handle-class members and the TopologyKernel conversion functions; the same laws at compile time at the boundaries and over two ranges; mirror construction shapes (opposite_halfedge/halfface, halfedge()/halfface(), halfface circulators, next/prev with wrap, add_face(vertices) orientation decision); add_face(halfedges) rejects open chains; no code reaches the face's stored halfedge order from a halfface handle without branching on the sub-index. Not decided: closedness of faces on arbitrary histories.",
             design="3/C08, 2/W"),
 "C15": dict(technique="static analysis: static_assert compile-fail witnesses over the constexpr TetTopology label tables, switch-table agreement on the CFG, permutation-literal parity, extracted face layout tables, count-use-after-deletion rule",
             text="Decides: all TetTopology label laws (names encode vertices, bit arithmetic, groups, rotations, parity, halfedge joins) exhaustively at compile time; the run-time dispatch maps each of the 32 labels to its own instance; every vertex-reordering literal in get_cell_vertices is an even permutation with the tested vertex first; both add_cell(vertex) overloads build the same closed oriented tetrahedron; split_* replace exactly one vertex per new cell; collapse/split restore the deletion mode and never read logical counts after a deferred deletion; valence guards. Not decided: collapse_edge's resulting mesh.",
             design="3/C15, 2/W"),
 "C16": dict(technique="static analysis: layout-table extraction from the vertex-list construction sequence, combinatorial cube-surface laws, symbolic evaluation of opposite_orientation, guard-fact extraction of the 24-entry orthogonal_orientation table and its algebraic laws",
             text="Decides: the six vertex quadruples of add_cell(8 vertices) form a closed oriented cube surface with disjoint opposite pairs and the fixed handedness 2,4,3,5 (mirror 3,4,2,5), looked-up = created quadruples, four-vertex lookup, storage order; constants, accessors, opposite pairing, opposite_halfface_handle_in_cell; opposite_orientation/orthogonal_orientation evaluated by the compiler for every argument against the axis cross products (witness generated from the current source text, any formulation); the table laws when written as a table; order tables and start offsets of the ordering check; orientation-aware accessor in the re-ordering walk; sheet circulator's exclusion test; valence guards. Not decided: HexVertexIter walk, re-ordering of arbitrary permuted input.",
             design="3/C16"),
 "C19": dict(technique="static analysis: index-table and reduction-offset rules over all instantiated VectorT members, shape rules for the GeometryKernel queries",
             text="Decides (index tables only, no numerics): cross product component table; homogenized; every accumulate/inner_product skips exactly the elements that form its initial value; scalar compound operators apply `e op= s` with the parameter itself; vector compound operators combine component i with component i over [0,DIM); binary operators defer to the compound ones; min/max family uses the named operation over the full extent, max_abs/min_abs in the abs-comparator form (other forms are not judged); vector/barycenter/normal shapes incl. the circulator that delivers each vertex once; NormalAttrib collection/exhaustion shapes. Not decided: numerical results, rounding, stream I/O.",
             design="3/C19"),
})
CLAIMED.update({
 "C06": dict(technique="static analysis: table agreement - writer/reader primitive-operation sequences, the published Kaitai description (parsed on every run), byte-order pairs, width thresholds, sibling readers, ASCII type-name tables, codec registry, pending-deletion guards, type-detection loops",
             text="Decides the agreement clauses: per structure identical write/read operation sequences and ovmb_size; equality with the .ksy field sequences, magic/reserved contents and enum tables; little-endian byte pairs on both sides; suitable_int_encoding thresholds = limits of the narrowed types and each chunk's encoding chosen from the count of the kind it writes; all three topology readers add handle_offset; typeName specialisations <-> readProperty branches with the same T, entity strings; unique codec names with matching T; every writer refuses pending deletions before its first output; type detection looks at all faces and all cells; WriteBuffers are reset before reuse; the bool codec budgets ceil(n/8) bytes; the reader never rejects the empty PROP spans the writer emits; optional chunks are skipped; readers keep duplicate edges. Not decided: value equality after a round trip, floating-point printing.",
             design="3/C06"),
})
CLAIMED.update({
 "C10": dict(technique="static analysis: name-independent canonical forms of the lookup functions (parameters as positions, single-definition locals inlined, range-for variables as each(range)), guard facts at every hit return, parameter-dependence closure, candidate-loop exit classification on the clang CFG",
             text="Decides structural necessary conditions of soundness/completeness of the 15 lookup functions (incl. the deprecated forwarding names): every hit depends on every argument; a loop over candidates is left only through its bound or with a hit; a miss returns the invalid constant / false after all loops; per function the facts under which a hit is returned: outgoing halfedge of a with to(h)=b; (from,to)=(a,b) returns h and (b,a) returns its opposite over the halfedges of the halffaces of the cell; halfedges (v0,v1),(v1,v2) both valid and passed in order; halfface around hes[0] containing hes[1]; next(h,F)/adjacent halfface forms with v2; extensive: equal sizes, offset = position of (v0,v1), from(hes[(i+offset)%size]) compared with vs[i] for all i; get_halfface_vertices: one lap in circulator order, >= 2 lap circulator advanced to the start vertex then n pushes, from-vertex of the halfedge; is_incident; n_vertices_in_cell via std::set. Not decided: equality with a brute-force search on every reachable mesh, the not-deleted clause (rests on C01's unlink rules).",
             design="3/C10, 2/K"),
})
NOT_YET = {}
NA = {}
props = [json.loads(l) for l in open(os.path.join(V, "properties.jsonl"))]
checks, na = [], []
for p in props:
    i = p["id"]
    if i in CLAIMED:
        c = CLAIMED[i]
        checks.append({
            "property_id": i,
            "quick_cmd": "./check %s --tier quick" % i,
            "thorough_cmd": "./check %s --tier thorough" % i,
            "evidence_file": "/verif/evidence/%s.json" % i,
            "replay_cmd_template": "./check %s --replay {path}" % i,
            "engine": "ovmverif",
            "level_claimed": {"category": "other", "text": c["text"], "design_ref": c["design"]},
            "level_note": "decides the structural clause, not the behaviour. Trusted base: clang 14 front end and clang::CFG, the extractor's expression normalisation, the classification of std container member functions used by the rules.",
            "technique": c["technique"],
        })
    elif i in NA:
        na.append({"property_id": i, "reason": NA[i]})
    else:
        na.append({"property_id": i, "reason": "no check registered yet in this round: the static rules planned in DESIGN section 3/%s are not built; nothing is claimed for it" % i})
m = {
 "version": 1,
 "setup_cmd": "./setup.sh",
 "hooks": {"guard": "OVM_VERIF", "enable": "none needed: all analysis reads the unmodified sources (no hooks committed)", "baseline_off_cmd": "cmake --build /repo/_build -j16 && ctest --test-dir /repo/_build -j8 --timeout 900", "source_commits": [], "add_only": True},
 "engines": [{"name": "ovmverif", "path": "/verif/ovmverif", "serves_properties": sorted(CLAIMED), "kind_free_text": "libTooling fact extractor (tools/ovm-extract.cc: CFG + resolved expression trees per function, records, enums, variables) feeding repository-specific Python rules (guards, dominance, call-graph propagation, table agreement)"}],
 "checks": checks,
 "not_applicable": na,
 "notes": "static analysis only; exit 0 pass / 1 violation / 2 analysis broken (anchor vanished, floor undershot, canary silent). Known findings: /verif/known_findings.jsonl",
}
json.dump(m, open(os.path.join(V, "MANIFEST.json"), "w"), indent=1)
print("checks:", [c["property_id"] for c in checks])
