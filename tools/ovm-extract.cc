// ovm-extract: libTooling fact extractor for the OpenVolumeMesh static checks.
//
// For one translation unit it writes a JSON document with
//   functions : every non-dependent function definition located under one of the
//               --root prefixes (template instantiations, lambdas and defaulted
//               members included), with its clang::CFG; every CFG element is
//               serialised as an expression tree over *resolved* declarations
//   records   : fields / bases / declared methods of every complete class
//   enums     : enumerators with values
//   vars      : namespace-scope / static-member / static-local variables with
//               initialiser (and evaluated value when constant-foldable)
// No rule is decided here; the Python rule engine consumes the facts.
//
// usage: ovm-extract --out=<file.json> --root=/repo/src/OpenVolumeMesh --root=/verif/tu <source> -- <flags>

#include "clang/AST/ASTConsumer.h"
#include "clang/AST/ASTContext.h"
#include "clang/AST/DeclCXX.h"
#include "clang/AST/DeclTemplate.h"
#include "clang/AST/ExprCXX.h"
#include "clang/AST/RecursiveASTVisitor.h"
#include "clang/AST/StmtCXX.h"
#include "clang/Analysis/CFG.h"
#include "clang/Frontend/CompilerInstance.h"
#include "clang/Frontend/FrontendAction.h"
#include "clang/Index/USRGeneration.h"
#include "clang/Tooling/CommonOptionsParser.h"
#include "clang/Tooling/Tooling.h"
#include "llvm/Support/CommandLine.h"
#include "llvm/Support/JSON.h"
#include "llvm/Support/raw_ostream.h"

#include <deque>
#include <map>
#include <set>
#include <string>

using namespace clang;
namespace json = llvm::json;

static llvm::cl::OptionCategory Cat("ovm-extract options");
static llvm::cl::opt<std::string> OutFile("out", llvm::cl::desc("output json"), llvm::cl::Required, llvm::cl::cat(Cat));
static llvm::cl::list<std::string> Roots("root", llvm::cl::desc("path prefix of files whose definitions are extracted"), llvm::cl::cat(Cat));

namespace {

struct Extractor {
  ASTContext &Ctx;
  SourceManager &SM;
  PrintingPolicy PP;
  json::Array Functions, Records, Enums, Vars;
  std::set<std::string> DoneFn, DoneRec, DoneEnum, DoneVar;
  std::deque<const FunctionDecl *> Work;
  std::set<const FunctionDecl *> Queued;

  // per function state
  llvm::DenseMap<const Stmt *, std::pair<unsigned, unsigned>> ElemIdx;
  const Stmt *TopElem = nullptr;
  std::string CurFnId;

  Extractor(ASTContext &C) : Ctx(C), SM(C.getSourceManager()), PP(C.getLangOpts()) {
    PP.SuppressTagKeyword = true;
    PP.Bool = true;
    PP.SuppressUnwrittenScope = false;
    PP.AnonymousTagLocations = false;
  }

  std::string fileOf(SourceLocation L) {
    L = SM.getExpansionLoc(L);
    if (L.isInvalid()) return "";
    PresumedLoc P = SM.getPresumedLoc(L);
    if (P.isInvalid()) return "";
    llvm::SmallString<256> Path(P.getFilename());
    SM.getFileManager().makeAbsolutePath(Path);
    llvm::sys::path::remove_dots(Path, true);
    return std::string(Path.str());
  }
  unsigned lineOf(SourceLocation L) {
    L = SM.getExpansionLoc(L);
    if (L.isInvalid()) return 0;
    return SM.getExpansionLineNumber(L);
  }
  unsigned colOf(SourceLocation L) {
    L = SM.getExpansionLoc(L);
    if (L.isInvalid()) return 0;
    return SM.getExpansionColumnNumber(L);
  }
  bool inRoots(SourceLocation L) {
    std::string F = fileOf(L);
    if (F.empty()) return false;
    for (auto &R : Roots)
      if (F.compare(0, R.size(), R) == 0) return true;
    return false;
  }

  std::string ty(QualType T) {
    if (T.isNull()) return "";
    return T.getCanonicalType().getAsString(PP);
  }
  std::string usr(const Decl *D) {
    llvm::SmallString<256> Buf;
    if (index::generateUSRForDecl(D, Buf)) return "";
    return std::string(Buf.str());
  }
  std::string qual(const NamedDecl *D) {
    std::string S;
    llvm::raw_string_ostream OS(S);
    D->printQualifiedName(OS, PP);
    return OS.str();
  }
  std::string diagName(const NamedDecl *D) {
    std::string S;
    llvm::raw_string_ostream OS(S);
    D->getNameForDiagnostic(OS, PP, true);
    return OS.str();
  }
  std::string bare(const NamedDecl *D) {
    return D->getDeclName().getAsString();
  }
  // qualified name without any template arguments
  std::string plainQual(const NamedDecl *D) {
    std::string S = bare(D);
    if (isa<CXXConstructorDecl>(D)) S = "(ctor)";
    if (isa<CXXDestructorDecl>(D)) S = "(dtor)";
    const DeclContext *DC = D->getDeclContext();
    while (DC && !DC->isTranslationUnit()) {
      if (auto *ND = dyn_cast<NamespaceDecl>(DC)) {
        if (!ND->isAnonymousNamespace() && !ND->isInline()) S = ND->getNameAsString() + "::" + S;
        else if (ND->isAnonymousNamespace()) S = "(anon)::" + S;
      } else if (auto *RD = dyn_cast<RecordDecl>(DC)) {
        if (auto *CR = dyn_cast<CXXRecordDecl>(RD); CR && CR->isLambda()) S = "(lambda)::" + S;
        else S = RD->getNameAsString() + "::" + S;
      } else if (auto *FD = dyn_cast<FunctionDecl>(DC)) {
        S = FD->getNameAsString() + "()::" + S;
      }
      DC = DC->getParent();
    }
    return S;
  }

  bool isLambdaCallOp(const FunctionDecl *FD) {
    if (auto *MD = dyn_cast<CXXMethodDecl>(FD))
      return MD->getParent()->isLambda();
    return false;
  }

  std::string fnId(const FunctionDecl *FD) {
    if (isLambdaCallOp(FD)) {
      auto *MD = cast<CXXMethodDecl>(FD);
      const CXXRecordDecl *RD = MD->getParent();
      // enclosing function (if any)
      std::string Parent;
      const DeclContext *DC = RD->getDeclContext();
      while (DC && !isa<FunctionDecl>(DC) && !DC->isTranslationUnit()) DC = DC->getParent();
      if (DC && isa<FunctionDecl>(DC)) Parent = fnId(cast<FunctionDecl>(DC));
      std::string S = Parent + "::lambda@" + std::to_string(lineOf(RD->getLocation())) + ":" + std::to_string(colOf(RD->getLocation()));
      // generic lambda specialisations: add the parameter types
      if (FD->isTemplateInstantiation()) {
        S += "<";
        for (auto *P : FD->parameters()) S += ty(P->getType()) + ";";
        S += ">";
      }
      return S;
    }
    std::string U = usr(FD);
    if (U.empty()) U = "nousr:" + diagName(FD);
    return U;
  }

  std::string varId(const VarDecl *VD) {
    if (VD->isLocalVarDeclOrParm() && !VD->isStaticLocal())
      return bare(VD) + "@" + std::to_string(lineOf(VD->getLocation())) + ":" + std::to_string(colOf(VD->getLocation()));
    if (isa<VarTemplateSpecializationDecl>(VD)) return diagName(VD);
    return qual(VD);
  }

  void enqueue(const FunctionDecl *FD) {
    if (!FD) return;
    const FunctionDecl *Def = nullptr;
    if (!FD->hasBody(Def) || !Def) return;
    if (Def->isDependentContext()) return;
    if (Def->getTemplatedKind() == FunctionDecl::TK_FunctionTemplate) return;
    if (!inRoots(Def->getLocation())) return;
    if (Queued.insert(Def).second) Work.push_back(Def);
  }

  // ---------------------------------------------------------------- expressions
  json::Value ser(const Stmt *S) {
    if (!S) return nullptr;
    if (S != TopElem) {
      auto It = ElemIdx.find(S);
      if (It != ElemIdx.end())
        return json::Object{{"k", "ref"}, {"b", It->second.first}, {"i", It->second.second}};
    }
    return serNoRef(S);
  }

  json::Array serArgs(llvm::ArrayRef<const Expr *> A) {
    json::Array R;
    for (auto *E : A) R.push_back(ser(E));
    return R;
  }

  json::Object callObj(const FunctionDecl *Callee, SourceLocation L) {
    json::Object O{{"k", "call"}, {"ln", lineOf(L)}};
    O["n"] = qual(Callee);
    O["pn"] = plainQual(Callee);
    O["u"] = fnId(Callee);
    O["t"] = ty(Callee->getReturnType());
    if (auto *MD = dyn_cast<CXXMethodDecl>(Callee)) {
      O["cc"] = ty(Ctx.getRecordType(MD->getParent()));
      if (MD->isConst()) O["cst"] = true;
      if (MD->isStatic()) O["st"] = true;
    }
    if (Callee->isNoReturn()) O["noret"] = true;
    if (const TemplateArgumentList *TA = Callee->getTemplateSpecializationArgs()) {
      json::Array Args;
      for (const TemplateArgument &A : TA->asArray()) {
        std::string S;
        llvm::raw_string_ostream OS(S);
        if (A.getKind() == TemplateArgument::Type) OS << ty(A.getAsType());
        else if (A.getKind() == TemplateArgument::Integral) OS << A.getAsIntegral().getExtValue();
        else A.print(PP, OS, true);
        Args.push_back(OS.str());
      }
      O["ta"] = std::move(Args);
    }
    enqueue(Callee);
    return O;
  }

  bool removesConst(QualType From, QualType To) {
    From = From.getCanonicalType();
    To = To.getCanonicalType();
    if ((From->isPointerType() && To->isPointerType()) || (From->isReferenceType() && To->isReferenceType()) ||
        (To->isReferenceType())) {
      QualType F = From->isPointerType() || From->isReferenceType() ? From->getPointeeType() : From;
      QualType T = To->getPointeeType();
      return F.isConstQualified() && !T.isConstQualified();
    }
    return false;
  }

  json::Value serNoRef(const Stmt *S) {
    if (!S) return nullptr;
    // transparent wrappers
    if (auto *E = dyn_cast<ParenExpr>(S)) return ser(E->getSubExpr());
    if (auto *E = dyn_cast<ExprWithCleanups>(S)) return ser(E->getSubExpr());
    if (auto *E = dyn_cast<MaterializeTemporaryExpr>(S)) return ser(E->getSubExpr());
    if (auto *E = dyn_cast<CXXBindTemporaryExpr>(S)) return ser(E->getSubExpr());
    if (auto *E = dyn_cast<ConstantExpr>(S)) return ser(E->getSubExpr());
    if (auto *E = dyn_cast<SubstNonTypeTemplateParmExpr>(S)) return ser(E->getReplacement());
    if (auto *E = dyn_cast<CXXDefaultArgExpr>(S)) return json::Object{{"k", "defarg"}, {"x", ser(E->getExpr())}};
    if (auto *E = dyn_cast<CXXDefaultInitExpr>(S)) return json::Object{{"k", "definit"}, {"x", ser(E->getExpr())}};
    if (auto *E = dyn_cast<ImplicitCastExpr>(S)) {
      if (E->getCastKind() == CK_UserDefinedConversion || E->getCastKind() == CK_ConstructorConversion)
        return ser(E->getSubExpr());
      if (E->getCastKind() == CK_DerivedToBase || E->getCastKind() == CK_UncheckedDerivedToBase) {
        return json::Object{{"k", "upcast"}, {"t", ty(E->getType())}, {"x", ser(E->getSubExpr())}};
      }
      return ser(E->getSubExpr());
    }
    if (auto *E = dyn_cast<ExplicitCastExpr>(S)) {
      const char *CK = isa<CXXStaticCastExpr>(E)        ? "static"
                       : isa<CXXConstCastExpr>(E)       ? "const"
                       : isa<CXXReinterpretCastExpr>(E) ? "reinterpret"
                       : isa<CXXDynamicCastExpr>(E)     ? "dynamic"
                       : isa<CStyleCastExpr>(E)         ? "cstyle"
                       : isa<CXXFunctionalCastExpr>(E)  ? "functional"
                                                        : "other";
      json::Object O{{"k", "cast"}, {"ck", CK}, {"t", ty(E->getTypeAsWritten())}, {"x", ser(E->getSubExpr())}};
      O["ft"] = ty(E->getSubExpr()->getType());
      O["clk"] = E->getCastKindName();
      if (removesConst(E->getSubExpr()->getType(), E->getTypeAsWritten())) O["rc"] = true;
      return O;
    }
    if (auto *E = dyn_cast<DeclRefExpr>(S)) {
      const ValueDecl *D = E->getDecl();
      if (auto *VD = dyn_cast<VarDecl>(D)) {
        const char *St = isa<ParmVarDecl>(VD)                               ? "param"
                         : VD->isStaticLocal()                              ? "static-local"
                         : VD->isLocalVarDecl()                             ? "local"
                         : VD->isStaticDataMember()                         ? "static-member"
                                                                            : "global";
        json::Object O{{"k", "var"}, {"n", bare(VD)}, {"id", varId(VD)}, {"t", ty(VD->getType())}, {"s", St}};
        if (!VD->isLocalVarDeclOrParm() || VD->isStaticLocal()) {
          noteVar(VD);
          if (VD->getType().isConstQualified() || VD->isConstexpr()) O["const"] = true;
        }
        return O;
      }
      if (auto *FD = dyn_cast<FunctionDecl>(D)) {
        enqueue(FD);
        return json::Object{{"k", "fnref"}, {"n", qual(FD)}, {"u", fnId(FD)}};
      }
      if (auto *ED = dyn_cast<EnumConstantDecl>(D)) {
        return json::Object{{"k", "enum"}, {"n", qual(ED)}, {"v", ED->getInitVal().getExtValue()}, {"t", ty(E->getType())}};
      }
      if (auto *BD = dyn_cast<BindingDecl>(D)) {
        return json::Object{{"k", "var"}, {"n", bare(BD)}, {"id", bare(BD) + "@" + std::to_string(lineOf(BD->getLocation())) + ":" + std::to_string(colOf(BD->getLocation()))}, {"t", ty(BD->getType())}, {"s", "binding"}, {"x", ser(BD->getBinding())}};
      }
      return json::Object{{"k", "declref"}, {"n", qual(D)}};
    }
    if (auto *E = dyn_cast<MemberExpr>(S)) {
      const ValueDecl *D = E->getMemberDecl();
      if (auto *FD = dyn_cast<FieldDecl>(D)) {
        json::Object O{{"k", "mem"}, {"b", ser(E->getBase())}, {"f", bare(FD)}, {"o", ty(Ctx.getRecordType(FD->getParent()))}, {"t", ty(FD->getType())}};
        if (FD->isMutable()) O["mut"] = true;
        return O;
      }
      if (auto *VD = dyn_cast<VarDecl>(D)) {
        noteVar(VD);
        return json::Object{{"k", "var"}, {"n", bare(VD)}, {"id", varId(VD)}, {"t", ty(VD->getType())}, {"s", "static-member"}};
      }
      if (auto *MD = dyn_cast<CXXMethodDecl>(D)) {
        // bound member function (only appears as callee; handled in call)
        return json::Object{{"k", "methref"}, {"n", qual(MD)}, {"b", ser(E->getBase())}};
      }
      return json::Object{{"k", "memref"}, {"n", qual(D)}, {"b", ser(E->getBase())}};
    }
    if (isa<CXXThisExpr>(S)) return json::Object{{"k", "this"}};
    if (auto *E = dyn_cast<IntegerLiteral>(S)) return json::Object{{"k", "lit"}, {"v", (int64_t)E->getValue().getLimitedValue()}, {"t", ty(E->getType())}};
    if (auto *E = dyn_cast<CXXBoolLiteralExpr>(S)) return json::Object{{"k", "lit"}, {"v", E->getValue()}, {"t", "bool"}};
    if (auto *E = dyn_cast<FloatingLiteral>(S)) return json::Object{{"k", "lit"}, {"v", E->getValueAsApproximateDouble()}, {"t", ty(E->getType())}};
    if (auto *E = dyn_cast<StringLiteral>(S)) {
      if (E->isAscii() || E->isUTF8()) return json::Object{{"k", "lit"}, {"v", E->getString().str()}, {"t", "str"}};
      return json::Object{{"k", "lit"}, {"v", "<wide>"}, {"t", "str"}};
    }
    if (auto *E = dyn_cast<CharacterLiteral>(S)) return json::Object{{"k", "lit"}, {"v", (int64_t)E->getValue()}, {"t", "char"}};
    if (isa<CXXNullPtrLiteralExpr>(S) || isa<GNUNullExpr>(S)) return json::Object{{"k", "lit"}, {"v", nullptr}, {"t", "nullptr"}};
    if (auto *E = dyn_cast<BinaryOperator>(S)) {
      if (E->isAssignmentOp())
        return json::Object{{"k", "asg"}, {"op", E->getOpcodeStr().str()}, {"l", ser(E->getLHS())}, {"r", ser(E->getRHS())}, {"ln", lineOf(E->getOperatorLoc())}};
      return json::Object{{"k", "bin"}, {"op", E->getOpcodeStr().str()}, {"l", ser(E->getLHS())}, {"r", ser(E->getRHS())}, {"lt", ty(E->getLHS()->getType())}};
    }
    if (auto *E = dyn_cast<UnaryOperator>(S)) {
      std::string Op = UnaryOperator::getOpcodeStr(E->getOpcode()).str();
      if (E->isPostfix()) Op = "post" + Op;
      else if (E->isIncrementDecrementOp()) Op = "pre" + Op;
      return json::Object{{"k", "un"}, {"op", Op}, {"x", ser(E->getSubExpr())}, {"ln", lineOf(E->getOperatorLoc())}};
    }
    if (auto *E = dyn_cast<ArraySubscriptExpr>(S)) return json::Object{{"k", "idx"}, {"b", ser(E->getBase())}, {"i", ser(E->getIdx())}};
    if (auto *E = dyn_cast<AbstractConditionalOperator>(S)) {
      if (auto *CO = dyn_cast<ConditionalOperator>(E))
        return json::Object{{"k", "cond"}, {"c", ser(CO->getCond())}, {"a", ser(CO->getTrueExpr())}, {"b", ser(CO->getFalseExpr())}};
      return json::Object{{"k", "unk"}, {"c", "BinaryConditionalOperator"}};
    }
    if (auto *E = dyn_cast<CXXOperatorCallExpr>(S)) {
      const FunctionDecl *Callee = E->getDirectCallee();
      if (Callee) {
        json::Object O = callObj(Callee, E->getOperatorLoc());
        O["op"] = getOperatorSpelling(E->getOperator());
        bool Member = isa<CXXMethodDecl>(Callee) && !cast<CXXMethodDecl>(Callee)->isStatic();
        unsigned First = 0;
        if (Member && E->getNumArgs() > 0) {
          O["r"] = ser(E->getArg(0));
          O["rt"] = ty(E->getArg(0)->getType());
          First = 1;
        }
        json::Array A;
        for (unsigned I = First; I < E->getNumArgs(); ++I) A.push_back(ser(E->getArg(I)));
        if (E->getOperator() == OO_Subscript && Member && E->getNumArgs() == 2) {
          json::Object X{{"k", "idx"}, {"b", std::move(*O.get("r"))}, {"i", std::move(A[0])}, {"n", *O.get("n")}, {"bt", *O.get("rt")}, {"t", ty(E->getType())}, {"ln", *O.get("ln")}};
          return X;
        }
        O["a"] = std::move(A);
        return O;
      }
    }
    if (auto *E = dyn_cast<CXXMemberCallExpr>(S)) {
      const CXXMethodDecl *MD = E->getMethodDecl();
      if (MD) {
        json::Object O = callObj(MD, E->getExprLoc());
        const Expr *Obj = E->getImplicitObjectArgument();
        O["r"] = ser(Obj);
        if (Obj) {
          QualType OT = Obj->getType();
          if (OT->isPointerType()) { OT = OT->getPointeeType(); O["arrow"] = true; }
          O["rt"] = ty(OT);
        }
        bool Virt = MD->isVirtual();
        if (auto *ME = dyn_cast<MemberExpr>(E->getCallee()->IgnoreParens()))
          if (ME->hasQualifier()) { Virt = false; O["qualified"] = true; }
        if (Virt) O["v"] = true;
        json::Array A;
        for (auto *Arg : E->arguments()) A.push_back(ser(Arg));
        O["a"] = std::move(A);
        return O;
      }
    }
    if (auto *E = dyn_cast<CallExpr>(S)) {
      const FunctionDecl *Callee = E->getDirectCallee();
      json::Array A;
      for (auto *Arg : E->arguments()) A.push_back(ser(Arg));
      if (Callee) {
        json::Object O = callObj(Callee, E->getExprLoc());
        O["a"] = std::move(A);
        return O;
      }
      return json::Object{{"k", "icall"}, {"f", ser(E->getCallee())}, {"a", std::move(A)}, {"ln", lineOf(E->getExprLoc())}, {"ft", ty(E->getCallee()->getType())}};
    }
    if (auto *E = dyn_cast<CXXConstructExpr>(S)) {
      const CXXConstructorDecl *CD = E->getConstructor();
      json::Array A;
      for (auto *Arg : E->arguments()) A.push_back(ser(Arg));
      json::Object O{{"k", "ctor"}, {"t", ty(E->getType())}, {"a", std::move(A)}, {"ln", lineOf(E->getLocation())}};
      if (CD) {
        O["pn"] = plainQual(CD);
        O["u"] = fnId(CD);
        if (CD->isCopyConstructor()) O["copy"] = true;
        if (CD->isMoveConstructor()) O["move"] = true;
        if (CD->isDefaultConstructor()) O["default"] = true;
        enqueue(CD);
      }
      if (E->isListInitialization()) O["list"] = true;
      return O;
    }
    if (auto *E = dyn_cast<CXXInheritedCtorInitExpr>(S)) {
      return json::Object{{"k", "ctor"}, {"t", ty(E->getType())}, {"inherited", true}, {"a", json::Array{}}};
    }
    if (auto *E = dyn_cast<CXXNewExpr>(S)) {
      return json::Object{{"k", "new"}, {"t", ty(E->getAllocatedType())}, {"x", ser(E->getInitializer())}};
    }
    if (auto *E = dyn_cast<CXXDeleteExpr>(S)) return json::Object{{"k", "delete"}, {"x", ser(E->getArgument())}};
    if (auto *E = dyn_cast<LambdaExpr>(S)) {
      const CXXMethodDecl *Op = E->getCallOperator();
      json::Array Caps;
      for (auto &C : E->captures()) {
        if (C.capturesVariable())
          Caps.push_back(json::Object{{"n", bare(C.getCapturedVar())}, {"id", varId(C.getCapturedVar())}, {"ref", C.getCaptureKind() == LCK_ByRef}});
        else if (C.capturesThis())
          Caps.push_back(json::Object{{"n", "this"}});
      }
      json::Object O{{"k", "lambda"}, {"caps", std::move(Caps)}, {"ln", lineOf(E->getBeginLoc())}};
      if (Op) {
        if (E->isGenericLambda()) {
          O["generic"] = true;
          O["u"] = fnId(Op);  // unspecialised id (specialisations append <types>)
          if (auto *FT = Op->getDescribedFunctionTemplate())
            for (auto *Spec : FT->specializations()) enqueue(Spec);
        } else {
          O["u"] = fnId(Op);
          enqueue(Op);
        }
      }
      return O;
    }
    if (auto *E = dyn_cast<InitListExpr>(S)) {
      json::Array A;
      for (auto *I : E->inits()) A.push_back(ser(I));
      return json::Object{{"k", "initlist"}, {"a", std::move(A)}, {"t", ty(E->getType())}};
    }
    if (auto *E = dyn_cast<CXXStdInitializerListExpr>(S)) return ser(E->getSubExpr());
    if (auto *E = dyn_cast<UnaryExprOrTypeTraitExpr>(S)) {
      json::Object O{{"k", "sizeof"}, {"t", ty(E->getTypeOfArgument())}};
      Expr::EvalResult R;
      if (E->EvaluateAsInt(R, Ctx)) O["v"] = (int64_t)R.Val.getInt().getExtValue();
      return O;
    }
    if (auto *E = dyn_cast<CXXTemporaryObjectExpr>(S)) {  // (subclass of CXXConstructExpr; handled above)
      (void)E;
    }
    if (auto *E = dyn_cast<CXXScalarValueInitExpr>(S)) return json::Object{{"k", "zeroinit"}, {"t", ty(E->getType())}};
    if (auto *E = dyn_cast<ImplicitValueInitExpr>(S)) return json::Object{{"k", "zeroinit"}, {"t", ty(E->getType())}};
    if (auto *E = dyn_cast<CXXThrowExpr>(S)) return json::Object{{"k", "throw"}, {"x", ser(E->getSubExpr())}, {"ln", lineOf(E->getThrowLoc())}};
    if (auto *E = dyn_cast<ReturnStmt>(S)) return json::Object{{"k", "ret"}, {"x", ser(E->getRetValue())}, {"ln", lineOf(E->getReturnLoc())}};
    if (auto *D = dyn_cast<DeclStmt>(S)) {
      json::Array Vs;
      for (auto *Dc : D->decls()) {
        if (auto *VD = dyn_cast<VarDecl>(Dc)) {
          json::Object V{{"n", bare(VD)}, {"id", varId(VD)}, {"t", ty(VD->getType())}, {"init", ser(VD->getInit())}};
          if (VD->isStaticLocal()) { V["static"] = true; noteVar(VD); }
          if (VD->getType()->isReferenceType()) V["isref"] = true;
          if (auto *DD = dyn_cast<DecompositionDecl>(VD)) {
            json::Array Bs;
            for (auto *B : DD->bindings()) Bs.push_back(bare(B));
            V["bindings"] = std::move(Bs);
          }
          Vs.push_back(std::move(V));
        }
      }
      return json::Object{{"k", "decl"}, {"vars", std::move(Vs)}, {"ln", lineOf(D->getBeginLoc())}};
    }
    if (auto *E = dyn_cast<Expr>(S)) {
      Expr::EvalResult R;
      if (!E->isValueDependent() && E->getType()->isIntegralOrEnumerationType() && E->EvaluateAsInt(R, Ctx) && !R.HasSideEffects) {
        json::Object O{{"k", "lit"}, {"v", (int64_t)R.Val.getInt().getExtValue()}, {"t", ty(E->getType())}, {"folded", S->getStmtClassName()}};
        return O;
      }
    }
    // fallback: keep the children so nothing is lost
    json::Array Ch;
    for (const Stmt *C : S->children()) Ch.push_back(ser(C));
    return json::Object{{"k", "unk"}, {"c", S->getStmtClassName()}, {"a", std::move(Ch)}, {"ln", lineOf(S->getBeginLoc())}};
  }

  // ---------------------------------------------------------------- functions
  void emitFunction(const FunctionDecl *FD) {
    std::string Id = fnId(FD);
    if (!DoneFn.insert(Id).second) return;
    CurFnId = Id;
    json::Object F;
    F["id"] = Id;
    F["name"] = bare(FD);
    F["qual"] = qual(FD);
    F["pq"] = plainQual(FD);
    F["diag"] = diagName(FD);
    F["file"] = fileOf(FD->getLocation());
    F["line"] = lineOf(FD->getLocation());
    F["endline"] = lineOf(FD->getEndLoc());
    F["ret"] = ty(FD->getReturnType());
    json::Array Ps;
    for (auto *P : FD->parameters())
      Ps.push_back(json::Object{{"n", bare(P)}, {"id", varId(P)}, {"t", ty(P->getType())}});
    F["params"] = std::move(Ps);
    const char *Kind = "function";
    if (auto *MD = dyn_cast<CXXMethodDecl>(FD)) {
      Kind = isa<CXXConstructorDecl>(MD) ? "ctor" : isa<CXXDestructorDecl>(MD) ? "dtor" : isa<CXXConversionDecl>(MD) ? "conv" : "method";
      const CXXRecordDecl *RD = MD->getParent();
      F["cls"] = ty(Ctx.getRecordType(RD));
      F["clsq"] = qual(RD);
      if (MD->isConst()) F["const"] = true;
      if (MD->isVirtual()) F["virtual"] = true;
      if (MD->isStatic()) F["static"] = true;
      F["access"] = getAccessSpelling(MD->getAccess()).str();
      json::Array Ov;
      for (auto *O : MD->overridden_methods()) Ov.push_back(fnId(O));
      if (!Ov.empty()) F["overrides"] = std::move(Ov);
      if (RD->isLambda()) {
        Kind = "lambda";
        const DeclContext *DC = RD->getDeclContext();
        while (DC && !isa<FunctionDecl>(DC) && !DC->isTranslationUnit()) DC = DC->getParent();
        if (DC && isa<FunctionDecl>(DC)) F["lambda_parent"] = fnId(cast<FunctionDecl>(DC));
        if (auto *Pat = FD->getTemplateInstantiationPattern()) F["lambda_base"] = fnId(Pat);
        else F["lambda_base"] = Id;
      }
      if (MD->isCopyAssignmentOperator()) F["copy_assign"] = true;
      if (MD->isMoveAssignmentOperator()) F["move_assign"] = true;
      if (auto *CD = dyn_cast<CXXConstructorDecl>(MD)) {
        if (CD->isCopyConstructor()) F["copy_ctor"] = true;
        if (CD->isMoveConstructor()) F["move_ctor"] = true;
      }
    }
    F["kind"] = Kind;
    if (FD->isDefaulted()) F["defaulted"] = true;
    if (FD->isImplicit()) F["implicit"] = true;
    if (FD->isTemplateInstantiation()) {
      F["inst"] = true;
      if (auto *Pat = FD->getTemplateInstantiationPattern()) F["pattern"] = fnId(Pat);
    }
    if (FD->isOverloadedOperator()) F["op"] = getOperatorSpelling(FD->getOverloadedOperator());
    if (const TemplateArgumentList *TA = FD->getTemplateSpecializationArgs()) {
      json::Array Args;
      for (const TemplateArgument &A : TA->asArray()) {
        std::string S;
        llvm::raw_string_ostream OS(S);
        if (A.getKind() == TemplateArgument::Type) OS << ty(A.getAsType());
        else if (A.getKind() == TemplateArgument::Integral) OS << A.getAsIntegral().getExtValue();
        else A.print(PP, OS, true);
        Args.push_back(OS.str());
      }
      F["targs"] = std::move(Args);
    }

    // lexical try regions with their handler types (for exception-escape rules)
    {
      struct TryV : RecursiveASTVisitor<TryV> {
        Extractor &X;
        json::Array Out;
        TryV(Extractor &X) : X(X) {}
        bool VisitCXXTryStmt(CXXTryStmt *T) {
          json::Array Cs;
          for (unsigned I = 0; I < T->getNumHandlers(); ++I) {
            CXXCatchStmt *H = T->getHandler(I);
            Cs.push_back(H->getExceptionDecl() ? X.ty(H->getCaughtType()) : std::string("..."));
          }
          Out.push_back(json::Object{{"from", X.lineOf(T->getTryBlock()->getBeginLoc())}, {"to", X.lineOf(T->getTryBlock()->getEndLoc())}, {"catches", std::move(Cs)}});
          return true;
        }
        bool TraverseLambdaExpr(LambdaExpr *) { return true; }  // lambdas are separate functions
      } TV(*this);
      TV.TraverseStmt(FD->getBody());
      if (!TV.Out.empty()) F["trys"] = std::move(TV.Out);
    }

    // CFG
    CFG::BuildOptions BO;
    BO.AddInitializers = true;
    BO.AddImplicitDtors = true;
    BO.AddTemporaryDtors = false;
    BO.PruneTriviallyFalseEdges = false;
    std::unique_ptr<CFG> G = CFG::buildCFG(FD, FD->getBody(), &Ctx, BO);
    if (!G) {
      F["cfg"] = nullptr;
      Functions.push_back(std::move(F));
      return;
    }
    ElemIdx.clear();
    for (const CFGBlock *B : *G) {
      unsigned I = 0;
      for (const CFGElement &E : *B) {
        if (auto CS = E.getAs<CFGStmt>()) ElemIdx[CS->getStmt()] = {B->getBlockID(), I};
        ++I;
      }
    }
    json::Array Blocks;
    for (const CFGBlock *B : *G) {
      json::Object JB;
      JB["id"] = B->getBlockID();
      json::Array Elems;
      for (const CFGElement &E : *B) {
        if (auto CS = E.getAs<CFGStmt>()) {
          TopElem = CS->getStmt();
          json::Value V = serNoRef(TopElem);
          TopElem = nullptr;
          if (auto *O = V.getAsObject())
            if (!O->get("ln")) (*O)["ln"] = lineOf(CS->getStmt()->getBeginLoc());
          Elems.push_back(std::move(V));
        } else if (auto CI = E.getAs<CFGInitializer>()) {
          const CXXCtorInitializer *Init = CI->getInitializer();
          json::Object O{{"k", "minit"}, {"x", ser(Init->getInit())}, {"ln", lineOf(Init->getSourceLocation())}};
          if (Init->isAnyMemberInitializer()) {
            O["f"] = bare(Init->getAnyMember());
            O["t"] = ty(Init->getAnyMember()->getType());
          } else if (Init->isBaseInitializer())
            O["base"] = ty(QualType(Init->getBaseClass(), 0));
          else if (Init->isDelegatingInitializer())
            O["delegating"] = true;
          if (!Init->isWritten()) O["implicit"] = true;
          Elems.push_back(std::move(O));
        } else if (auto AD = E.getAs<CFGAutomaticObjDtor>()) {
          Elems.push_back(json::Object{{"k", "dtor"}, {"what", "auto"}, {"n", bare(AD->getVarDecl())}, {"id", varId(AD->getVarDecl())}, {"t", ty(AD->getVarDecl()->getType())}});
        } else if (auto BD = E.getAs<CFGBaseDtor>()) {
          Elems.push_back(json::Object{{"k", "dtor"}, {"what", "base"}, {"t", ty(BD->getBaseSpecifier()->getType())}});
        } else if (auto MD = E.getAs<CFGMemberDtor>()) {
          Elems.push_back(json::Object{{"k", "dtor"}, {"what", "member"}, {"n", bare(MD->getFieldDecl())}, {"t", ty(MD->getFieldDecl()->getType())}});
        } else {
          Elems.push_back(json::Object{{"k", "cfgelem"}, {"kind", (int)E.getKind()}});
        }
      }
      JB["e"] = std::move(Elems);
      if (const Stmt *T = B->getTerminatorStmt()) {
        json::Object JT;
        JT["c"] = T->getStmtClassName();
        if (auto *BOp = dyn_cast<BinaryOperator>(T)) JT["op"] = BOp->getOpcodeStr().str();
        JT["ln"] = lineOf(T->getBeginLoc());
        if (const Stmt *C = B->getTerminatorCondition(false)) JT["cond"] = ser(C);
        if (auto *FR = dyn_cast<CXXForRangeStmt>(T)) {
          JT["range"] = ser(FR->getRangeInit());
          if (auto *LV = FR->getLoopVariable()) JT["loopvar"] = varId(LV);
        }
        JB["t"] = std::move(JT);
      }
      if (const Stmt *L = B->getLabel()) {
        if (auto *CS = dyn_cast<CaseStmt>(L)) JB["label"] = json::Object{{"case", ser(CS->getLHS())}};
        else if (isa<DefaultStmt>(L)) JB["label"] = json::Object{{"default", true}};
        else if (auto *CH = dyn_cast<CXXCatchStmt>(L)) JB["label"] = json::Object{{"catch", CH->getExceptionDecl() ? ty(CH->getCaughtType()) : std::string("...")}};
        else JB["label"] = json::Object{{"other", L->getStmtClassName()}};
      }
      if (B->hasNoReturnElement()) JB["noreturn"] = true;
      json::Array Succ;
      for (auto SI = B->succ_begin(); SI != B->succ_end(); ++SI) {
        if (const CFGBlock *SB = SI->getReachableBlock()) Succ.push_back(SB->getBlockID());
        else if (const CFGBlock *UB = SI->getPossiblyUnreachableBlock()) Succ.push_back(json::Object{{"unreachable", UB->getBlockID()}});
        else Succ.push_back(nullptr);
      }
      JB["s"] = std::move(Succ);
      Blocks.push_back(std::move(JB));
    }
    F["cfg"] = json::Object{{"entry", G->getEntry().getBlockID()}, {"exit", G->getExit().getBlockID()}, {"blocks", std::move(Blocks)}};
    Functions.push_back(std::move(F));
  }

  // ---------------------------------------------------------------- records etc.
  void noteVar(const VarDecl *VD) {
    if (!VD) return;
    if (VD->isLocalVarDeclOrParm() && !VD->isStaticLocal()) return;
    const VarDecl *Def = VD->getDefinition();
    if (!Def) Def = VD;
    if (!inRoots(Def->getLocation())) return;
    if (Def->isTemplated() && !isa<VarTemplateSpecializationDecl>(Def)) {
      // member of a class template pattern / variable template pattern: dependent
      if (Def->getDeclContext()->isDependentContext() || Def->getDescribedVarTemplate()) return;
    }
    std::string Q = diagName(Def);
    if (Def->isStaticLocal()) Q = CurFnId + "::" + Q;
    if (!DoneVar.insert(Q).second) return;
    json::Object V{{"n", Q}, {"t", ty(Def->getType())}, {"file", fileOf(Def->getLocation())}, {"line", lineOf(Def->getLocation())}};
    V["const"] = Def->getType().isConstQualified() || Def->isConstexpr();
    V["constexpr"] = Def->isConstexpr();
    V["kind"] = Def->isStaticLocal() ? "static-local" : Def->isStaticDataMember() ? "static-member" : "global";
    if (Def->getTLSKind() != VarDecl::TLS_None) V["tls"] = true;
    if (const Expr *Init = Def->getInit()) {
      if (!Init->isValueDependent()) {
        ElemIdx.clear();
        V["init"] = ser(Init);
        if (const APValue *AV = Def->evaluateValue()) {
          if (AV->isInt()) V["value"] = (int64_t)AV->getInt().getExtValue();
          else if (AV->isFloat()) V["value"] = AV->getFloat().convertToDouble();
        }
      }
    }
    Vars.push_back(std::move(V));
  }

  void emitRecord(const CXXRecordDecl *RD) {
    if (!RD->isCompleteDefinition() || RD->isDependentContext() || RD->isLambda()) return;
    if (!inRoots(RD->getLocation())) return;
    std::string N = ty(Ctx.getRecordType(RD));
    if (!DoneRec.insert(N).second) return;
    json::Object R{{"name", N}, {"qual", qual(RD)}, {"pq", plainQual(RD)}, {"file", fileOf(RD->getLocation())}, {"line", lineOf(RD->getLocation())}};
    json::Array Bases;
    for (auto &B : RD->bases()) Bases.push_back(json::Object{{"t", ty(B.getType())}, {"virtual", B.isVirtual()}, {"access", getAccessSpelling(B.getAccessSpecifier()).str()}});
    R["bases"] = std::move(Bases);
    json::Array Fields;
    for (auto *F : RD->fields()) {
      json::Object O{{"n", bare(F)}, {"t", ty(F->getType())}, {"access", getAccessSpelling(F->getAccess()).str()}, {"line", lineOf(F->getLocation())}};
      if (F->isMutable()) O["mutable"] = true;
      if (F->hasInClassInitializer() && F->getInClassInitializer() && !F->getInClassInitializer()->isValueDependent()) {
        ElemIdx.clear();
        O["init"] = ser(F->getInClassInitializer());
      }
      Fields.push_back(std::move(O));
    }
    R["fields"] = std::move(Fields);
    json::Array Methods;
    for (auto *D : RD->decls()) {
      const CXXMethodDecl *M = dyn_cast<CXXMethodDecl>(D);
      if (!M)
        if (auto *FT = dyn_cast<FunctionTemplateDecl>(D)) {
          Methods.push_back(json::Object{{"n", bare(FT)}, {"template", true}, {"access", getAccessSpelling(FT->getAccess()).str()},
                                         {"const", isa<CXXMethodDecl>(FT->getTemplatedDecl()) && cast<CXXMethodDecl>(FT->getTemplatedDecl())->isConst()}});
          continue;
        }
      if (!M) continue;
      json::Object O{{"n", bare(M)}, {"u", fnId(M)}, {"access", getAccessSpelling(M->getAccess()).str()}};
      if (M->isConst()) O["const"] = true;
      if (M->isVirtual()) O["virtual"] = true;
      if (M->isPure()) O["pure"] = true;
      if (M->isStatic()) O["static"] = true;
      if (M->isDefaulted()) O["defaulted"] = true;
      if (M->isDeleted()) O["deleted"] = true;
      if (M->isImplicit()) O["implicit"] = true;
      if (M->isUserProvided()) O["user_provided"] = true;
      if (M->isCopyAssignmentOperator()) O["copy_assign"] = true;
      if (M->isMoveAssignmentOperator()) O["move_assign"] = true;
      if (auto *CD = dyn_cast<CXXConstructorDecl>(M)) {
        O["ctor"] = true;
        if (CD->isCopyConstructor()) O["copy_ctor"] = true;
        if (CD->isMoveConstructor()) O["move_ctor"] = true;
      }
      if (isa<CXXDestructorDecl>(M)) O["dtor"] = true;
      O["ret"] = ty(M->getReturnType());
      json::Array Ps;
      for (auto *P : M->parameters()) Ps.push_back(ty(P->getType()));
      O["params"] = std::move(Ps);
      O["line"] = lineOf(M->getLocation());
      Methods.push_back(std::move(O));
    }
    R["methods"] = std::move(Methods);
    Records.push_back(std::move(R));
  }

  void emitEnum(const EnumDecl *ED) {
    if (!ED->isCompleteDefinition() || !inRoots(ED->getLocation())) return;
    if (ED->getDeclContext()->isDependentContext()) return;
    std::string N = qual(ED);
    if (!DoneEnum.insert(N).second) return;
    json::Array Es;
    for (auto *E : ED->enumerators()) Es.push_back(json::Object{{"n", bare(E)}, {"v", E->getInitVal().getExtValue()}});
    Enums.push_back(json::Object{{"name", N}, {"file", fileOf(ED->getLocation())}, {"line", lineOf(ED->getLocation())}, {"underlying", ty(ED->getIntegerType())}, {"enumerators", std::move(Es)}});
  }
};

struct Visitor : RecursiveASTVisitor<Visitor> {
  Extractor &X;
  Visitor(Extractor &X) : X(X) {}
  bool shouldVisitTemplateInstantiations() const { return true; }
  bool shouldVisitImplicitCode() const { return true; }
  bool VisitFunctionDecl(FunctionDecl *FD) {
    X.enqueue(FD);
    return true;
  }
  bool VisitCXXRecordDecl(CXXRecordDecl *RD) {
    X.emitRecord(RD);
    return true;
  }
  bool VisitEnumDecl(EnumDecl *ED) {
    X.emitEnum(ED);
    return true;
  }
  bool VisitVarDecl(VarDecl *VD) {
    X.CurFnId = "";
    if (!VD->isLocalVarDeclOrParm() && !VD->getDeclContext()->isDependentContext()) X.noteVar(VD);
    return true;
  }
  bool VisitLambdaExpr(LambdaExpr *LE) {
    if (auto *Op = LE->getCallOperator()) {
      if (LE->isGenericLambda()) {
        if (auto *FT = Op->getDescribedFunctionTemplate())
          for (auto *Spec : FT->specializations()) X.enqueue(Spec);
      } else
        X.enqueue(Op);
    }
    return true;
  }
};

struct Consumer : ASTConsumer {
  std::string Main;
  Consumer(std::string M) : Main(std::move(M)) {}
  void HandleTranslationUnit(ASTContext &Ctx) override {
    if (Ctx.getDiagnostics().hasErrorOccurred()) {
      llvm::errs() << "ovm-extract: errors in " << Main << ", no output\n";
      return;
    }
    Extractor X(Ctx);
    Visitor V(X);
    V.TraverseDecl(Ctx.getTranslationUnitDecl());
    while (!X.Work.empty()) {
      const FunctionDecl *FD = X.Work.front();
      X.Work.pop_front();
      X.emitFunction(FD);
    }
    json::Object Root{{"unit", Main}, {"functions", std::move(X.Functions)}, {"records", std::move(X.Records)}, {"enums", std::move(X.Enums)}, {"vars", std::move(X.Vars)}};
    std::error_code EC;
    llvm::raw_fd_ostream OS(OutFile, EC);
    if (EC) {
      llvm::errs() << "cannot write " << OutFile << "\n";
      return;
    }
    OS << json::Value(std::move(Root));
  }
};

struct Action : ASTFrontendAction {
  std::unique_ptr<ASTConsumer> CreateASTConsumer(CompilerInstance &, llvm::StringRef File) override {
    return std::make_unique<Consumer>(File.str());
  }
};

}  // namespace

int main(int argc, const char **argv) {
  auto Opts = tooling::CommonOptionsParser::create(argc, argv, Cat);
  if (!Opts) {
    llvm::errs() << llvm::toString(Opts.takeError()) << "\n";
    return 2;
  }
  tooling::ClangTool Tool(Opts->getCompilations(), Opts->getSourcePathList());
  int RC = Tool.run(tooling::newFrontendActionFactory<Action>().get());
  return RC;
}
