#!/bin/bash
# usage: tools/try_seed.sh <patch.diff> <property-id>...   applies the patch to /repo, runs the checks, reverts /repo
P=$1; shift
cd /repo || exit 2
if ! git diff --quiet; then echo "/repo has uncommitted changes; refusing"; exit 2; fi
if ! git apply "$P" 2>/dev/null; then
  if ! git apply --3way "$P" 2>/dev/null; then echo "PATCH DOES NOT APPLY: $P"; git reset -q --hard HEAD; exit 3; fi
fi
cd /verif
for id in "$@"; do
  out=$(./check $id 2>&1); rc=$?
  echo "== $id rc=$rc"; echo "$out" | grep -E "^\s+\[|ANALYSIS-BROKEN" | cut -c1-260 | head -8
done
cd /repo && git reset -q --hard HEAD && git status --short | grep -v "_build" 
