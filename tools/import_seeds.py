#!/usr/bin/env python3
"""copies confirmed seeded changes from the agents' scratch worktrees into /verif/seeded/<id>/"""
import json, os, shutil, sys, glob
NEEDS = {
 "C01a": "two swapped faces sharing an edge (fast delete of a face adjacent to the last face / collect_garbage / direct swap_face_indices)",
 "C01b": "deferred mode: delete a cell, add a cell re-using one of its halffaces, collect_garbage (tet split_face/split_edge do this)",
 "C02a": "deferred deletion on, face bottom-up incidences off, delete a cell then delete a face of the still-stored cell",
 "C02b": "immediate non-fast deletion of an interior face whose higher incident cell is not the last cell",
 "C03a": "fast deletion with a face/halfface property alive and a removed face that is not the last one",
 "C03b": "a mesh property alive plus clear(false) (explicit or via FileManager::readStream into an existing mesh)",
 "C04a": "deferred deletion: delete a cell, re-add a cell on its halffaces, collect_garbage",
 "C04b": "face bottom-up incidences off, StatusAttrib::garbage_collection with preserveManifoldness and a removed cell",
 "C05a": "deferred-deleted face 0 and a backward (--it) walk reaching the front",
 "C05b": "ve_iter / vertex_edges with max_laps >= 2",
 "C06a": "a mesh whose maximum face or cell valence is exactly 256 or 65536",
 "C06b": "AutoDetect write of a polyhedral mesh with only hex (tet) cells plus a dangling face of another valence",
 "C07a": "crafted OVMB file whose face/cell TOPO chunk has a non-zero handle_offset pushing handles out of range",
 "C07b": "OVM-ASCII file with a negative halfedge/halfface index",
 "C11a": "vertex bottom-up incidences disabled and add_edge(a,b) requested in the opposite direction of the stored edge",
 "C11b": "add_face with topology check on a connected but open halfedge chain",
 "C12a": "toggle the edge bottom-up kind alone while the face kind stays enabled on a mesh with non-cyclic face creation order",
 "C12b": "vertex kind on, edge kind off, non-fast deletion of a non-last edge",
 "C13a": "live cell PropertyPtr on the assigned-to mesh and different cell counts in source and target",
 "C13b": "read the persistent flag on a copied mesh / save the copy as ASCII / un-persist on the copy and copy again",
 "C14a": "handle to a persistent property held across clear_*_props / clear, then flag inspected or property re-persisted",
 "C14b": "a shared storage with an empty name exists, then an anonymous request of the same type and entity kind",
 "C17a": "edge bottom-up on, swap_edge_indices on two edges sharing a face that traverses them in opposite directions",
 "C17b": "deferred deletion and a deleted cell taking part in swap_cell_indices (also via collect_garbage after re-adding a cell on the same halffaces)",
 "C18a": "crafted file where one in-range handle in a TOPO chunk is replaced by its opposite so that add_face/add_cell rejects an entity",
 "C18b": "an output stream that starts failing exactly within the last 16 bytes of the file",
 "C20a": "two or more threads constructing vertex-cell circulators on a const mesh at the same time",
 "C20b": "mesh whose incidences were re-enabled (file load / garbage_collection) and two threads whose first hehf/hec query overlaps",
 "C08a": "face built from a vertex list that traverses a not-yet-existing edge in both directions (2-gon / spike), NDEBUG build",
 "C08b": "prev_halfedge_in_halfface on an even halfface of non-power-of-two valence at the halfedge stored first",
 "C09a": "boundary edge whose first stored halfface has at least two cells behind it in the fan (fan built faces-first in arbitrary order / cell deleted from a ring)",
 "C09b": "cell containing both halffaces of one face, adjacent_halfface_in_cell queried from one of them",
 "C15a": "collapse_edge with deferred deletion off, fast deletion on and the target vertex at index n-1 or n-2",
 "C15b": "run-time TetTopology::triangle_topology(label) with label CDB",
 "C16a": "topology-checked hex add_cell of a list not in convention order whose first halfface is an odd handle",
 "C16b": "hex add_cell(8 vertices) where the mesh already holds a different quad sharing two consecutive edges with a face of the new hex",
 "C19a": "integer vector divided by a scalar other than +-1",
 "C19b": "cell barycenter of a cell whose vertices do not all touch the same number of faces (pyramid)",
}
root = sys.argv[1] if len(sys.argv) > 1 else "/tmp/wt"
# round 2 re-uses the letters a,b in the agents' worktrees: map them to fresh ids (usage: import_seeds.py /tmp/wt2 cd)
letters = dict(zip("ab", sys.argv[2])) if len(sys.argv) > 2 else {}
dst = "/verif/seeded"
os.makedirs(dst, exist_ok=True)
for cj in sorted(glob.glob(root + "/C*/_seed/*/confirm.json")):
    c = json.load(open(cj))
    sid = c["id"]
    if letters:
        sid = sid[:3] + letters[sid[3]]
    d = os.path.dirname(cj)
    ok = c.get("applies") and c.get("compiles") and c.get("tests_failing_other_than_known_flaky", "x") == "" and c.get("demo_exit_unchanged") == "0" and c.get("demo_exit_with_change") not in ("0", "BUILDFAIL")
    if not ok:
        print("NOT CONFIRMED", sid, c)
        continue
    o = os.path.join(dst, sid)
    os.makedirs(o, exist_ok=True)
    for f in ("patch.diff", "demo.cc", "NOTES.md"):
        if os.path.exists(os.path.join(d, f)):
            shutil.copy(os.path.join(d, f), os.path.join(o, f))
    mp = os.path.join(o, "meta.json")
    meta = json.load(open(mp)) if os.path.exists(mp) else {}
    meta.update({
        "id": sid, "property": sid[:3], "base_commit": "af91eac (pinned snapshot)" if not letters else "HEAD of /repo with the fix: commits (round 2)",
        "needs_to_manifest": NEEDS.get(sid, "see NOTES.md"),
        "author": "independent sub-agent given only the property text and a scratch worktree",
        "confirmed_by": "tools/seed_agents/confirm.sh %s (scratch worktree): git apply patch; cmake --build; ctest; build+run demo; revert; rebuild; run demo" % sid[:3],
        "confirmation": c,
    })
    json.dump(meta, open(mp, "w"), indent=1)
    print("imported", sid)
