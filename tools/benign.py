#!/usr/bin/env python3
"""False-alarm audit: applies behaviour-preserving edits (renamed locals/parameters, shifted lines, reordered
independent statements) to a scratch copy of /repo and runs every registered check against it.
A check that exits 1 on such a variant is a false alarm (exit 2 = 'analysis broken' is tolerated but listed).

usage: tools/benign.py [variant names...]      (scratch copy under $TMPDIR, removed afterwards)"""
import json
import os
import re
import shutil
import subprocess
import sys
import tempfile

V = os.path.dirname(os.path.dirname(os.path.abspath(__file__)))
REPO = os.environ.get("OVM_REPO", "/repo")
S = "src/OpenVolumeMesh/"

# variant -> list of (file, [(regex, replacement)])
VARIANTS = {
    "rename_reorder_locals": [(S + "Core/TopologyKernel.cc", [(r"\bnew_halffaces\b", "ordered_hfs"), (r"\bincident_hfs\b", "stored_hfs"), (r"\bcur_hf\b", "walk_hf"), (r"\bcur_heh\b", "walk_heh"), (r"\bstart_hf\b", "first_hf"), (r"\bn_hfs\b", "count_hfs")])],
    "rename_adjacent_locals": [(S + "Core/TopologyKernel.cc", [(r"\bhasHalfedge\b", "containsHe"), (r"\bhasOppHalfedge\b", "containsOppHe"), (r"\bhehOpp\b", "oppositeHe"), (r"\bskipped\b", "passedSelf")])],
    "rename_kernel_params": [(S + "Core/TopologyKernel.cc", [(r"\b_halfedges\b", "_hes_in"), (r"\b_halffaces\b", "_hfs_in"), (r"\b_fromVertex\b", "_from"), (r"\b_toVertex\b", "_to"), (r"\b_allowDuplicates\b", "_dups")]),
                             (S + "Core/TopologyKernel.hh", [(r"\b_allowDuplicates\b", "_dups")])],
    "rename_delete_locals": [(S + "Core/TopologyKernel.cc", [(r"\bupdate_faces\b", "touched_faces"), (r"\bupdate_cells\b", "touched_cells"), (r"\blast_edge\b", "tail_edge"), (r"\blast_face\b", "tail_face"), (r"\bprocessed_faces\b", "done_faces"), (r"\bprocessed_cells\b", "done_cells"), (r"\bprocessed_halfedges\b", "done_halfedges"), (r"\bprocessed_edges\b", "done_edges"), (r"\bprocessed_vertices\b", "done_vertices")])],
    "rename_reader_locals": [(S + "IO/detail/BinaryFileReader.cc", [(r"\bexpected_bytes\b", "bytes_wanted"), (r"\bpos_size\b", "bytes_per_pos"), (r"\bread_heh\b", "decode_heh"), (r"\bread_hfh\b", "decode_hfh"), (r"\bhalfedges\b", "hes_of_face"), (r"\bhalffaces\b", "hfs_of_cell"), (r"\bhandle_size\b", "bytes_per_handle"), (r"\bchunk_reader\b", "payload"), (r"\bprop_decoder\b", "pdec")])],
    "rename_reader_params": [(S + "IO/detail/BinaryFileReader.cc", [(r"\bTopologyKernel &out\b", "TopologyKernel &target"), (r"\bout\.", "target."), (r"&out;", "&target;"), (r"\breader\b", "dec")])],
    "rename_ascii_locals": [(S + "FileManager/FileManagerT_impl.hh", [(r"\bn_halfedges\b", "numHalfEdges"), (r"\bn_halffaces\b", "numHalfFaces"), (r"\bv1\b", "idx1"), (r"\bv2\b", "idx2"), (r"\bhes\b", "face_hes"), (r"\bhfs\b", "cell_hfs"), (r"\bs_tmp\b", "token")])],
    "rename_status_locals": [(S + "Attribs/StatusAttribT_impl.hh", [(r"\bnv\b", "countV"), (r"\bnhe\b", "countHE"), (r"\bnhf\b", "countHF"), (r"\bnc\b", "countC"), (r"\bold_vh\b", "prev_vh"), (r"\bnew_vh\b", "next_vh"), (r"\bdef\b(?! )", "def")])],
    "rename_tet_locals": [(S + "Mesh/TetrahedralMeshTopologyKernel.cc", [(r"\bvhs\b", "cvs"), (r"\bdeferred_deletion_tmp\b", "was_deferred"), (r"\bsurvivingVertex\b", "kept"), (r"\bnew_cells\b", "pending_cells"), (r"\bvertices\b(?!\()", "cellverts")])],
    "rename_hex_locals": [(S + "Mesh/HexahedralMeshTopologyKernel.cc", [(r"\borderTop\b", "cycTop"), (r"\borderBot\b", "cycBot"), (r"\boffsetTop\b", "offT"), (r"\boffsetBot\b", "offB"), (r"\bvs\b", "quad"), (r"\bordered_halffaces\b", "sorted_hfs"), (r"\bhfs\b", "six")])],
    "rename_rm_locals": [(S + "Core/ResourceManagerT_impl.hh", [(r"\bexisting\b", "clash"), (r"\bsptr\b", "base_ptr"), (r"\btype_name\b", "wanted_type")]),
                         (S + "Core/ResourceManager.cc", [(r"\bother_props\b", "theirs"), (r"\bour_props\b", "ours"), (r"\bcopy\b", "dup")])],
    "rename_iter_locals": [(S + "Core/Iterators/VertexCellIter.cc", [(r"\bincidentHalfedges\b", "ohes"), (r"\bincidentHalfFaces\b", "ihfs"), (r"\bc_idx\b", "cellh")]),
                           (S + "Core/Iterators/HalfFaceVertexIter.cc", [(r"\bhehs\b", "face_hes")])],
    "rename_vector_locals": [(S + "Geometry/Vector11T.hh", [(r"\b_rhs\b", "_other"), (r"\b_s\b", "_scalar")]),
                             (S + "Core/GeometryKernel.hh", [(r"\bvalence\b(?!\()", "count"), (r"\bhfv_it\b", "fv"), (r"\bcv_it\b", "cvit"), (r"\bp1\b", "q1"), (r"\bp2\b", "q2"), (r"\bp3\b", "q3")])],
    "rename_lookup_locals": [(S + "Core/TopologyKernel.cc", [(r"\bhe0\b", "first_he"), (r"\bhe1\b", "second_he"), (r"\bhehf_it\b", "around"), (r"\ball_vertices_found\b", "matches"), (r"\boffset\b", "shift"), (r"\bhfv_it\b", "circ"), (r"\bvoh_it\b", "out_it"), (r"\bheh_opp\b", "flipped"), (r"\bhfh_opp\b", "neighbour"), (r"\bvhs\b", "result")]),
                             (S + "Core/TopologyKernel.hh", [(r"\bvhs\b", "seen_vertices")])],
    "rename_normal_locals": [(S + "Attribs/NormalAttribT_impl.hh", [(r"\bhalffaces\b", "boundary"), (r"\bvoh_it\b", "oh"), (r"\bhehf_it\b", "hf"), (r"\bhf_it\b", "it"), (r"\b_vh\b", "_v"), (r"\b_fh\b", "_f")]),
                             (S + "Attribs/NormalAttrib.hh", [(r"\bmult\b", "sign")])],
    "rename_swap_bool": [(S + "Core/detail/swap_bool.hh", [(r"\btmp\b", "saved"), (r"\ba\b", "lhs"), (r"\bb\b", "rhs")])],
    # formulations touched by the rules of the fuzzing / probing rounds (F34-F48): other spellings of the same behaviour
    "respell_late_fixes": [
        (S + "IO/detail/Decoder.cc", [(r"if \(n == 0\) \{", "if (0 == n) {")]),
        (S + "FileManager/Serializers.cc", [(r"size_t size = 0;", "size_t size{0};"), (r"bool b = false;", "bool b{false};")]),
        (S + "FileManager/SerializersT_impl.hh", [(r"size_t size = 0;", "size_t size(0);")]),
        (S + "FileManager/FileManagerT_impl.hh", [(r"size_t n_cells = 0;", "size_t n_cells{0u};")]),
        (S + "Core/Properties/PropertyStorageT.hh", [(r"value_type val = false;", "value_type val{false};")]),
        (S + "Mesh/TetrahedralMeshTopologyKernel.cc", [(r"if \(vhs\.size\(\) != 4\) \{", "if (4 != vhs.size()) {"), (r"\bfirst_new_edge\b", "edges_before"), (r"\bfirst_new_face\b", "faces_before"),
                                                       (r"if \(heh\.edge_handle\(\)\.uidx\(\) >= edges_before\)", "if (edges_before <= heh.edge_handle().uidx())")]),
        (S + "Mesh/HexahedralMeshTopologyKernel.cc", [(r"\ball_vertices\b", "corner_set"), (r"\bfront\b(?!\()", "near_side"), (r"return corner_set\.size\(\) == 8;", "return 8 == corner_set.size();")]),
        (S + "Core/TopologyKernel.cc", [(r"\boppositeInCell\b", "flipSide"), (r"\bhfhs\b", "both_cells_hfs"),
                                        (r"if\(is_deleted\(EdgeHandle\(i\)\)\) \{", "if(edge_deleted_[EdgeHandle(i)]) {")]),
        (S + "Core/GeometryKernel.hh", [(r"if\(_hfh\.subidx\(\) == 1\) \{", "if(1 == _hfh.subidx()) {")]),
        (S + "Core/ResourceManagerT_impl.hh", [(r"if \(_name\.empty\(\)\)\n        return \{\};", "if (_name.empty()) {\n        return {};\n    }")]),
        (S + "Geometry/Vector11T.hh", [(r"if \(r < l\) \{", "if (l > r) {"), (r"if \(r > l\) \{", "if (l < r) {")]),
    ],
    "flip_comparisons": [(S + "Core/TopologyKernel.cc", [
        (r"if\(halfedge\(\*voh_it\)\.to_vertex\(\) == _vh2\)", "if(_vh2 == halfedge(*voh_it).to_vertex())"),
        (r"from_vertex_handle\(heh\) == _vh1 && to_vertex_handle\(heh\) == _vh2", "_vh1 == from_vertex_handle(heh) && _vh2 == to_vertex_handle(heh)"),
        (r"from_vertex_handle\(heh\) == v0 && to_vertex_handle\(heh\) == v1", "v0 == from_vertex_handle(heh) && v1 == to_vertex_handle(heh)"),
        (r"if \(hes\.size\(\) != _vs\.size\(\)\)", "if (_vs.size() != hes.size())"),
        (r"if \(hes\[i\] == he0\)", "if (he0 == hes[i])"),
        (r"if \(halfedge\(heh\)\.from_vertex\(\) != _vs\[i\]\)", "if (_vs[i] != halfedge(heh).from_vertex())"),
        (r"if\(edge_handle\(heh\) == _eh\)", "if(_eh == edge_handle(heh))"),
        (r"if \(\*hfv_it == vh\) \{break;\}", "if (vh == *hfv_it) {break;}"),
        (r"if\(opposite_halfedge_handle\(heh\) == _halfEdgeHandle && hfh != opposite_halfface_handle\(_halfFaceHandle\)\)", "if(_halfEdgeHandle == opposite_halfedge_handle(heh) && opposite_halfface_handle(_halfFaceHandle) != hfh)"),
        (r"if\(hfh == _halfFaceHandle\) \{", "if(_halfFaceHandle == hfh) {"),
        (r"if \(to_vertex_handle\(_halfedges\[i\]\) != from_vertex_handle\(_halfedges\[i\+1\]\)\)", "if (from_vertex_handle(_halfedges[i+1]) != to_vertex_handle(_halfedges[i]))"),
        (r"if \(to_vertex_handle\(_halfedges\.back\(\)\) != from_vertex_handle\(_halfedges\.front\(\)\)\)", "if (from_vertex_handle(_halfedges.front()) != to_vertex_handle(_halfedges.back()))"),
        (r"if\(incident_cell_per_hf_\[\*hf_it\] == h\)", "if(h == incident_cell_per_hf_[*hf_it])"),
    ]),
        (S + "IO/detail/BinaryFileReader.cc", [(r"if \(state_ != ReadState::ReadingChunks\) \{", "if (ReadState::ReadingChunks != state_) {"), (r"file_header_\.n_verts != n_verts_read_", "n_verts_read_ != file_header_.n_verts")]),
        (S + "IO/detail/BinaryFileReader_impl.hh", [(r"if \(state_ != ReadState::HeaderRead\) \{", "if (ReadState::HeaderRead != state_) {")]),
        (S + "Core/ResourceManagerT_impl.hh", [(r"prop->name\(\) == _name", "_name == prop->name()"), (r"prop->internal_type_name\(\) == type_name", "type_name == prop->internal_type_name()")]),
    ],
    "shift_lines": [(S + "Core/TopologyKernel.cc", [(r"\A", "// moved\n// moved\n// moved\n")]), (S + "IO/detail/BinaryFileReader.cc", [(r"\A", "\n\n\n\n\n")]), (S + "Core/TopologyKernel.hh", [(r"#pragma once", "#pragma once\n\n\n")]), (S + "FileManager/FileManagerT_impl.hh", [(r"\A", "\n\n")])],
    "reorder_independent": [(S + "Core/TopologyKernel.hh", [(r"        edges_\.clear\(\);\n        faces_\.clear\(\);", "        faces_.clear();\n        edges_.clear();"), (r"        n_deleted_vertices_ = 0;\n        n_deleted_edges_ = 0;", "        n_deleted_edges_ = 0;\n        n_deleted_vertices_ = 0;")]),
                            (S + "Core/TopologyKernel.cc", [(r"    edges_\.emplace_back\(_fromVertex, _toVertex\);\n    edge_deleted_\.push_back\(false\);", "    edge_deleted_.push_back(false);\n    edges_.emplace_back(_fromVertex, _toVertex);")])],
}


def sh(cmd, cwd=None, env=None):
    return subprocess.run(cmd, shell=True, cwd=cwd, env=env, stdout=subprocess.PIPE, stderr=subprocess.STDOUT, text=True)


def main():
    names = sys.argv[1:] or sorted(VARIANTS)
    man = json.load(open(os.path.join(V, "MANIFEST.json")))
    claimed = [c["property_id"] for c in man["checks"]]
    tmp = tempfile.mkdtemp(prefix="ovm_benign_")
    sys.path.insert(0, V)
    from ovmverif import extract
    extract.gen_config()  # generated config headers for the compile test below
    res = {}
    try:
        for name in names:
            root = os.path.join(tmp, "repo")
            if os.path.exists(root):
                shutil.rmtree(root)
            os.makedirs(root)
            sh("git -C %s archive HEAD | tar -x -C %s" % (REPO, root))
            changed = 0
            for rel, subs in VARIANTS[name]:
                p = os.path.join(root, rel)
                s = open(p).read()
                s0 = s
                for pat, rep in subs:
                    s = re.sub(pat, rep, s)
                if s != s0:
                    changed += 1
                    open(p, "w").write(s)
            # the variant must still compile
            units = sh("grep -o 'OpenVolumeMesh/[A-Za-z/_]*\\.cc' %s/src/CMakeLists.txt" % root).stdout.split()
            gen = os.path.join(V, "build", "gen")
            bad = []
            procs = []
            for u in units + ["__tu__"]:
                src = os.path.join(V, "tu", "inst_all.cc") if u == "__tu__" else os.path.join(root, "src", u)
                procs.append((u, subprocess.Popen(["clang++", "-fsyntax-only", "-std=gnu++17", "-w", "-DNDEBUG", "-I" + os.path.join(root, "src"), "-I" + gen, src], stdout=subprocess.PIPE, stderr=subprocess.STDOUT, text=True)))
                if len(procs) >= 16:
                    for uu, pp in procs:
                        o = pp.communicate()[0]
                        if pp.returncode != 0:
                            bad.append((uu, o[-400:]))
                    procs = []
            for uu, pp in procs:
                o = pp.communicate()[0]
                if pp.returncode != 0:
                    bad.append((uu, o[-400:]))
            if bad or not changed:
                print("%-24s VARIANT INVALID (%s)" % (name, "no file changed" if not changed else "does not compile: %s" % bad[0][0]))
                if bad:
                    print(bad[0][1])
                res[name] = {"valid": False}
                continue
            env = dict(os.environ, OVM_REPO=root)
            fired, broken = {}, {}
            for pid in claimed:
                o = sh("./check %s" % pid, V, env)
                if o.returncode == 1:
                    fired[pid] = [l.strip()[:220] for l in o.stdout.splitlines() if l.startswith("  [")][:3]
                elif o.returncode == 2:
                    broken[pid] = [l for l in o.stdout.splitlines() if "BROKEN" in l][:1]
            res[name] = {"valid": True, "false_alarms": fired, "analysis_broken": broken}
            print("%-24s false alarms: %s | analysis-broken: %s" % (name, sorted(fired) or "none", sorted(broken) or "none"))
            for pid, ls in fired.items():
                for l in ls:
                    print("      %s %s" % (pid, l))
            for pid, ls in broken.items():
                print("      %s %s" % (pid, ls[0][:220] if ls else ""))
    finally:
        shutil.rmtree(tmp, ignore_errors=True)
        os.makedirs(os.path.join(V, "out"), exist_ok=True)
        json.dump(res, open(os.path.join(V, "out", "benign_audit.json"), "w"), indent=1)
        # restore evidence of the unchanged tree
        for pid in claimed:
            sh("./check %s" % pid, V)


if __name__ == "__main__":
    main()
