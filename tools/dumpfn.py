#!/usr/bin/env python3
"""debug aid: tools/dumpfn.py <qualified-name-substring> [line]  prints canonical statements and guard facts per block"""
import sys
sys.path.insert(0, "/verif")
from ovmverif import extract
from ovmverif.facts import FactBase
from ovmverif.canon import Canon
raw, rawd, info = extract.ensure("quick")
fb = FactBase(raw)
for f in fb.repo_fns():
    if sys.argv[1] in f.pq and (len(sys.argv) < 3 or str(f.line) == sys.argv[2]):
        cn = Canon(f)
        print("=====", f.pq, f.where)
        for b in sorted(f.reach()):
            t = f.term(b)
            print(" B%s succ=%s facts=%s" % (b, f.succ(b), [(s, p) for s, p, c in cn.facts(b)]))
            for bb, i, x in f.tops():
                if bb == b:
                    print("     ", cn.s(x)[:200])
            if t and t.get("cond"):
                print("      ? %s [%s]" % (cn.s(t["cond"])[:200], t.get("c")))
